import SqlVerif.Lemmas.LayoutLexer
import SqlVerif.Props.C07
import SqlVerif.Props.C09
/-!
# C07, lexer half — replacing a whitespace run changes `Whitespace` tokens only

Model: `Model/Tokenizer.lean` + `Model/Scan.lean` (tied to `src/tokenizer.rs` by the `tok` stream).
The parser half is `Props/C07.lean` (`layout_blind`: a whitespace-skipping program sees the
non-whitespace tokens only).  Here: the non-whitespace tokens (kinds and payloads; not locations) of
`a ++ w₁ ++ b` and `a ++ w₂ ++ b` coincide.

Everything rests on `Tok.nextToken_ws_cut` (`Lemmas/LayoutLexer.lean`), proved for EVERY branch of
`next_token`, so there is no `_partial` theorem in this file.  What the statement needs, and why:

* `Sep env c` for the FIRST character `c` of `w₁` and of `w₂`: `c` is whitespace for
  `char::is_whitespace`, is one of the ASCII blanks 9-13, 32 or non-ASCII, and none of
  `is_identifier_part`, `is_custom_operator_part`, `is_numeric`, `is_alphanumeric` accepts it.  Rust's
  whitespace satisfies all but the first dialect condition unconditionally; `is_identifier_part` does
  accept U+00A0/U+1680/U+2000…/U+3000 in MySQL (`'\u{0080}'..='\u{ffff}'` are identifier characters
  there), so in MySQL those are not separators (and do not lex as whitespace either).
  Both runs must START with such a character: an original run that starts with a comment opener
  right after a token (`a/**/b`) is not covered (the cut lemma is symmetric in the two texts).
* `env.isRedshift = false`: Redshift's `is_proper_identifier_inside_quotes` skips a whitespace run on
  a clone of the input and looks at the character AFTER it.  `redshift_counterexample` below is a
  concrete violation of the property text in that dialect (comment vs blank after `[`); on the real
  crate `SELECT ARRAY[ /**/ x]` parses to `Array([x])` and `SELECT ARRAY[ x]` to `ARRAY AS [ x]`.
* `w₂` must lex as whitespace *in front of `b`* (`h2`), not on its own: `" --x "` is blank-padded and
  lexes on its own as whitespace only, but swallows `b` (`unterminated_line_comment_counterexample`).
  For a `w₂` whose last token is a one-character blank or ends in `\n` the two coincide.
* `\r`: a lone `\r` is `Newline`, `\r\n` is ONE `Newline`.  This is the only place where
  `next_token` looks for a whitespace character after a token.  The non-whitespace tokens are not
  affected, but token boundaries are; the hypothesis `hcr` excludes the regrouping case (`a` ends in
  `\r` and `w₂` starts with `\n` while `w₁` does not).  `cr_lf_regroups` shows the regrouping.
* The old exceptions are gone: after `@`, `@@`, `#`, `%` every `char::is_whitespace` character is
  treated alike (`at_sharp_percent_treat_whitespace_alike`).
-/
namespace SqlVerif.Props.C07Lexer
open SqlVerif.Tok SqlVerif.Scan SqlVerif.Gen SqlVerif.Keywords

/-- `Token::Whitespace(_)` -/
def isWsTok : Token → Bool
  | .whitespace _ => true
  | _ => false

/-- the significant (non-whitespace) tokens, without locations and slices -/
def sig (ts : List (Entry Token)) : List Token := (ts.map Entry.tok).filter fun t => !isWsTok t

theorem sig_append (a b : List (Entry Token)) : sig (a ++ b) = sig a ++ sig b := by
  simp [sig]

theorem sig_of_untimed {a b : List (Entry Token)} (h : untimed a = untimed b) : sig a = sig b := by
  have : a.map Entry.tok = b.map Entry.tok := by
    have := congrArg (List.map Prod.fst) h
    simpa [untimed, List.map_map, Function.comp_def] using this
  simp [sig, this]

theorem sig_ws {w : List (Entry Token)} (h : ∀ e ∈ w, isWsTok e.tok = true) : sig w = [] := by
  simp only [sig, List.filter_eq_nil_iff, List.mem_map]
  rintro t ⟨e, he, rfl⟩
  simp [h e he]

/-- **cut lemma** (restated): a token that ends before a separator character depends neither on that
character nor on anything after it.  All dialect rows but Redshift, all branches of `next_token`. -/
theorem next_token_ws_cut (env : Env) (hrs : env.isRedshift = false) (c c' : Nat) (x x' : List Nat)
    (hc : Sep env c) (hc' : Sep env c') (s : List Nat) (t : Token) (r : List Nat)
    (hcr : s = [13] → c' = 10 → c = 10)
    (e : nextToken env (s ++ c :: x) = .ok (some (t, r ++ c :: x))) :
    nextToken env (s ++ c' :: x') = .ok (some (t, r ++ c' :: x')) :=
  nextToken_ws_cut hc hc' hrs s t r hcr e

/-- **TokenBoundary**: the tokens that lie inside `a` are the same, with the same slices and
locations, whatever separator-headed text follows `a`; after them come the tokens of that text -/
theorem prefix_stable (env : Env) (hrs : env.isRedshift = false) (a : List Nat) (c c' : Nat)
    (x x' : List Nat) (hc : Sep env c) (hc' : Sep env c')
    (hcr : a.getLast? = some 13 → c' = 10 → c = 10)
    (A R R₂ : List (Entry Token))
    (h1 : tokenizeSpans env (a ++ c :: x) = .ok (A ++ R)) (hA : slices A = a)
    (h2 : tokenizeSpans env (c' :: x') = .ok R₂) :
    ∃ R', tokenizeSpans env (a ++ c' :: x') = .ok (A ++ R') ∧ untimed R' = untimed R₂ := by
  have inv := tokLoop_inv (nextToken_ok env) _ _ _ _ h1
  have hAne : ∀ e ∈ A, e.slice ≠ [] := fun e he => inv.2.1 e (List.mem_append_left _ he)
  have hlen : A.length ≤ a.length := by
    have := length_le_of_nonempty_slices A hAne
    rwa [hA] at this
  obtain ⟨R', hR', hu⟩ := tokLoop_loc_irrel (nextToken_ok env) _ _ _ _ h2
    ((a ++ c' :: x').length + 1 - A.length) (advance ⟨1, 1⟩ (slices A)) (by simp; omega)
  refine ⟨R', ?_, hu⟩
  refine tokLoop_cut (nextToken_ok env) [] A a ?_ _ _ ⟨1, 1⟩ R R' h1 (by simp [hA]) (by simp; omega)
    (by simpa using hR')
  intro s t r hs e
  refine nextToken_ws_cut hc hc' hrs s t r ?_ e
  intro h13
  subst h13
  obtain ⟨p, rfl⟩ := hs
  exact hcr (by simp)

/-- **layout_lexer.**  `a ++ w₁ ++ b` lexes as `A ++ W ++ B` with `A` covering exactly `a` and `W`
whitespace tokens covering exactly `w₁`; `w₂`, in front of `b`, lexes as whitespace tokens `W₂`
covering exactly `w₂`; both runs start with a separator character.  Then `a ++ w₂ ++ b` lexes, its
tokens inside `a` are *identical* (payloads, slices, locations) and its significant tokens are those of
`a ++ w₁ ++ b`. -/
theorem layout_lexer (env : Env) (hrs : env.isRedshift = false) (a w₁ w₂ b : List Nat)
    (A W B W₂ B₂ : List (Entry Token))
    (h1 : tokenizeSpans env (a ++ w₁ ++ b) = .ok (A ++ W ++ B))
    (hA : slices A = a) (hW : slices W = w₁) (hWws : ∀ e ∈ W, isWsTok e.tok = true)
    (h2 : tokenizeSpans env (w₂ ++ b) = .ok (W₂ ++ B₂))
    (hW₂ : slices W₂ = w₂) (hW₂ws : ∀ e ∈ W₂, isWsTok e.tok = true)
    (c₁ c₂ : Nat) (hc₁ : w₁.head? = some c₁) (hc₂ : w₂.head? = some c₂)
    (hs₁ : Sep env c₁) (hs₂ : Sep env c₂)
    (hcr : a.getLast? = some 13 → c₂ = 10 → c₁ = 10) :
    ∃ R', tokenizeSpans env (a ++ w₂ ++ b) = .ok (A ++ R') ∧
      sig (A ++ R') = sig (A ++ W ++ B) := by
  obtain ⟨t₁, rfl⟩ : ∃ t, w₁ = c₁ :: t := by
    cases w₁ with
    | nil => simp at hc₁
    | cons d t => simp at hc₁; exact ⟨t, by rw [hc₁]⟩
  obtain ⟨t₂, rfl⟩ : ∃ t, w₂ = c₂ :: t := by
    cases w₂ with
    | nil => simp at hc₂
    | cons d t => simp at hc₂; exact ⟨t, by rw [hc₂]⟩
  have h1' : tokenizeSpans env (a ++ c₁ :: (t₁ ++ b)) = .ok (A ++ (W ++ B)) := by
    simpa [List.append_assoc] using h1
  obtain ⟨R', hR', hu⟩ := prefix_stable env hrs a c₁ c₂ (t₁ ++ b) (t₂ ++ b) hs₁ hs₂ hcr A (W ++ B)
    (W₂ ++ B₂) h1' hA (by simpa using h2)
  refine ⟨R', by simpa [List.append_assoc] using hR', ?_⟩
  -- the tokens of `b` are the same in both texts
  have tile1 := (tokLoop_inv (nextToken_ok env) _ _ _ _ h1).1
  have tile2 := (tokLoop_inv (nextToken_ok env) _ _ _ _ h2).1
  have hB : slices B = b := by
    simp only [slices_append, hA, hW] at tile1
    exact List.append_cancel_left tile1
  have hB₂ : slices B₂ = b := by
    simp only [slices_append, hW₂] at tile2
    exact List.append_cancel_left tile2
  obtain ⟨_, P, hP, huP⟩ := C09.suffix_stable env _ (A ++ W) B h1
  obtain ⟨_, P₂, hP₂, huP₂⟩ := C09.suffix_stable env _ W₂ B₂ h2
  rw [hB] at hP
  rw [hB₂, hP] at hP₂
  cases hP₂
  rw [sig_append, sig_append, sig_append, sig_of_untimed hu, sig_append, sig_ws hWws, sig_ws hW₂ws,
    sig_of_untimed (huP₂.symm.trans huP)]
  simp

/-- acceptance transfers as well: an error-free lex stays error-free (the statement above already
gives `.ok`); conversely for `w₁` and `w₂` swapped.  The significant tokens are equal as lists. -/
theorem layout_lexer_sig (env : Env) (hrs : env.isRedshift = false) (a w₁ w₂ b : List Nat)
    (A W B W₂ B₂ : List (Entry Token))
    (h1 : tokenizeSpans env (a ++ w₁ ++ b) = .ok (A ++ W ++ B))
    (hA : slices A = a) (hW : slices W = w₁) (hWws : ∀ e ∈ W, isWsTok e.tok = true)
    (h2 : tokenizeSpans env (w₂ ++ b) = .ok (W₂ ++ B₂))
    (hW₂ : slices W₂ = w₂) (hW₂ws : ∀ e ∈ W₂, isWsTok e.tok = true)
    (c₁ c₂ : Nat) (hc₁ : w₁.head? = some c₁) (hc₂ : w₂.head? = some c₂)
    (hs₁ : Sep env c₁) (hs₂ : Sep env c₂)
    (hcr : a.getLast? = some 13 → c₂ = 10 → c₁ = 10) :
    ∃ ts ts', tokenizeSpans env (a ++ w₁ ++ b) = .ok ts ∧ tokenizeSpans env (a ++ w₂ ++ b) = .ok ts' ∧
      sig ts' = sig ts := by
  obtain ⟨R', h, hs⟩ := layout_lexer env hrs a w₁ w₂ b A W B W₂ B₂ h1 hA hW hWws h2 hW₂ hW₂ws c₁ c₂
    hc₁ hc₂ hs₁ hs₂ hcr
  exact ⟨_, _, h1, h, hs⟩

/-! ## `w₂` given on its own -/

/-- a blank, tab or line feed is a token of its own whatever follows -/
theorem blank_self_delimiting (env : Env) (d : Nat) (hd : d = 32 ∨ d = 9 ∨ d = 10) (b : List Nat) :
    ∃ k, nextToken env (d :: b) = .ok (some (.whitespace k, b)) := by
  rcases hd with rfl | rfl | rfl
  · exact ⟨.space, by simp [nextToken, lexHead]⟩
  · exact ⟨.tab, by simp [nextToken, lexHead]⟩
  · exact ⟨.newline, by simp [nextToken, lexHead]⟩

/-- **layout_lexer, `w₂` lexed on its own.**  As `layout_lexer`, but the replacement run is described
by its own tokenization `W₂ᵢ ++ [last]`: all whitespace tokens, the last one being the one-character
token of a blank, tab or line feed `d₂` (this is what "blank-padded" has to mean: a trailing line
comment without its `\n` would swallow `b`, see `unterminated_line_comment_counterexample`). -/
theorem layout_lexer_standalone (env : Env) (hrs : env.isRedshift = false) (a w₁ w₂ b : List Nat)
    (A W B Wi : List (Entry Token)) (last : Entry Token) (d₂ : Nat)
    (h1 : tokenizeSpans env (a ++ w₁ ++ b) = .ok (A ++ W ++ B))
    (hA : slices A = a) (hW : slices W = w₁) (hWws : ∀ e ∈ W, isWsTok e.tok = true)
    (hw₂ : tokenizeSpans env w₂ = .ok (Wi ++ [last])) (hWiws : ∀ e ∈ Wi, isWsTok e.tok = true)
    (hlast : last.slice = [d₂]) (hd₂ : d₂ = 32 ∨ d₂ = 9 ∨ d₂ = 10) (hsd : Sep env d₂)
    (c₁ c₂ : Nat) (hc₁ : w₁.head? = some c₁) (hc₂ : w₂.head? = some c₂)
    (hs₁ : Sep env c₁) (hs₂ : Sep env c₂)
    (hcr : a.getLast? = some 13 → c₂ = 10 → c₁ = 10) :
    ∃ R', tokenizeSpans env (a ++ w₂ ++ b) = .ok (A ++ R') ∧
      sig (A ++ R') = sig (A ++ W ++ B) := by
  -- the tokens of `b` on its own
  have tile1 := (tokLoop_inv (nextToken_ok env) _ _ _ _ h1).1
  have hB : slices B = b := by
    simp only [slices_append, hA, hW] at tile1
    exact List.append_cancel_left tile1
  obtain ⟨_, P, hP, _⟩ := C09.suffix_stable env _ (A ++ W) B h1
  rw [hB] at hP
  -- `w₂ = slices Wi ++ [d₂]`
  have tile2 := (tokLoop_inv (nextToken_ok env) _ _ _ _ hw₂).1
  have hw₂eq : w₂ = slices Wi ++ d₂ :: [] := by
    rw [← tile2]; simp [hlast]
  obtain ⟨k, hk⟩ := blank_self_delimiting env d₂ hd₂ b
  -- tokens of `d₂ :: b` at any location
  have hdb : ∀ loc, ∃ Q, tokLoop (nextToken env) ((slices Wi ++ d₂ :: b).length + 1 - Wi.length) (d₂ :: b) loc =
      .ok ((Token.whitespace k, loc, [d₂]) :: Q) := by
    intro loc
    have inv := tokLoop_inv (nextToken_ok env) _ _ _ _ hw₂
    have hWine : ∀ e ∈ Wi, e.slice ≠ [] := fun e he => inv.2.1 e (List.mem_append_left _ he)
    have hlen := length_le_of_nonempty_slices Wi hWine
    obtain ⟨n, hn⟩ : ∃ n, (slices Wi ++ d₂ :: b).length + 1 - Wi.length = n + 1 ∧ b.length < n := by
      refine ⟨(slices Wi ++ d₂ :: b).length - Wi.length, ?_, ?_⟩ <;> simp <;> omega
    obtain ⟨Q, hQ, _⟩ := tokLoop_loc_irrel (nextToken_ok env) _ _ _ _ hP n (advance loc [d₂]) hn.2
    refine ⟨Q, ?_⟩
    rw [hn.1]
    have hc : consumed (d₂ :: b) b = [d₂] := consumed_append [d₂] b
    simp only [tokLoop, hk, hc, hQ]
  -- the tokens of `w₂ ++ b`
  have hw₂' : tokenizeSpans env (slices Wi ++ d₂ :: []) = .ok (Wi ++ [last]) := by rw [← hw₂eq]; exact hw₂
  obtain ⟨Q, hQ⟩ := hdb (advance ⟨1, 1⟩ (slices Wi))
  have inv := tokLoop_inv (nextToken_ok env) _ _ _ _ hw₂
  have hWine : ∀ e ∈ Wi, e.slice ≠ [] := fun e he => inv.2.1 e (List.mem_append_left _ he)
  have hlen := length_le_of_nonempty_slices Wi hWine
  have h2 : tokenizeSpans env (slices Wi ++ d₂ :: b) =
      .ok (Wi ++ (Token.whitespace k, advance ⟨1, 1⟩ (slices Wi), [d₂]) :: Q) := by
    refine tokLoop_cut (nextToken_ok env) [] Wi (slices Wi) ?_ _ _ ⟨1, 1⟩ [last] _ hw₂' (by simp)
      (by simp; omega) (by simpa using hQ)
    intro s t r _ e
    exact nextToken_ws_cut hsd hsd hrs s t r (fun _ h => h) e
  have tileQ := (tokLoop_inv (nextToken_ok env) _ _ _ _ h2).1
  have hw₂b : w₂ ++ b = slices Wi ++ d₂ :: b := by rw [hw₂eq]; simp
  have h2' : tokenizeSpans env (w₂ ++ b) =
      .ok ((Wi ++ [(Token.whitespace k, advance ⟨1, 1⟩ (slices Wi), [d₂])]) ++ Q) := by
    rw [hw₂b, h2]; simp
  refine layout_lexer env hrs a w₁ w₂ b A W B _ Q h1 hA hW hWws h2' ?_ ?_ c₁ c₂ hc₁ hc₂ hs₁ hs₂ hcr
  · rw [hw₂eq]; simp [Entry.slice]
  · intro e he
    rcases List.mem_append.1 he with he | he
    · exact hWiws e he
    · simp at he; subst he; rfl

/-! ## composition with the parser half -/

/-- the token vector handed to the parser -/
def toTL (ts : List (Entry Token)) : List (Cursor.TL Token) :=
  ts.map fun e => ⟨e.tok, ⟨e.loc.line, e.loc.col⟩⟩

theorem nonWs_toTL (ts : List (Entry Token)) :
    (Cursor.nonWs isWsTok (toTL ts)).map (·.tok) = sig ts := by
  induction ts with
  | nil => rfl
  | cons e ts ih =>
    simp only [toTL, List.map_cons, Cursor.nonWs, sig] at ih ⊢
    simp only [List.filter_cons]
    cases h : isWsTok e.tok <;> simp [ih]

/-- **layout_parse.**  Under the hypotheses of `layout_lexer`, every whitespace-skipping parse
program (`Props/C07.lean`) has the same outcome on the two texts: the same tree on success, the same
message on failure, a panic iff a panic. -/
theorem layout_parse {α : Type} (env : Env) (hrs : env.isRedshift = false) (a w₁ w₂ b : List Nat)
    (A W B W₂ B₂ : List (Entry Token))
    (h1 : tokenizeSpans env (a ++ w₁ ++ b) = .ok (A ++ W ++ B))
    (hA : slices A = a) (hW : slices W = w₁) (hWws : ∀ e ∈ W, isWsTok e.tok = true)
    (h2 : tokenizeSpans env (w₂ ++ b) = .ok (W₂ ++ B₂))
    (hW₂ : slices W₂ = w₂) (hW₂ws : ∀ e ∈ W₂, isWsTok e.tok = true)
    (c₁ c₂ : Nat) (hc₁ : w₁.head? = some c₁) (hc₂ : w₂.head? = some c₂)
    (hs₁ : Sep env c₁) (hs₂ : Sep env c₂)
    (hcr : a.getLast? = some 13 → c₂ = 10 → c₁ = 10)
    (p : Cursor.Prog Token α) (hp : Cursor.Skipping p) :
    ∃ ts ts', tokenizeSpans env (a ++ w₁ ++ b) = .ok ts ∧ tokenizeSpans env (a ++ w₂ ++ b) = .ok ts' ∧
      (Cursor.runC isWsTok p ⟨toTL ts, 0⟩ (fun _ => 0) []).shape =
        (Cursor.runC isWsTok p ⟨toTL ts', 0⟩ (fun _ => 0) []).shape := by
  obtain ⟨ts, ts', e1, e2, hs⟩ := layout_lexer_sig env hrs a w₁ w₂ b A W B W₂ B₂ h1 hA hW hWws h2 hW₂
    hW₂ws c₁ c₂ hc₁ hc₂ hs₁ hs₂ hcr
  refine ⟨ts, ts', e1, e2, ?_⟩
  exact C07.layout_blind isWsTok (toTL ts) (toTL ts') p hp (by rw [nonWs_toTL, nonWs_toTL, hs])

/-! ## the look-aheads that used to single out the blank -/

/-- after `@`, `@@`, `#`, `%` and `?` every separator is treated alike: the operator token is
produced and nothing is consumed from the whitespace (formerly only `' '` was recognised) -/
theorem at_sharp_percent_treat_whitespace_alike (env : Env) (c : Nat) (x : List Nat) (hc : Sep env c) :
    lexAt env (c :: x) = .ok (.atSign, c :: x) ∧
    lexAt env (64 :: c :: x) = .ok (.atAt, c :: x) ∧
    lexSharp env (c :: x) = .ok (.sharp, c :: x) ∧
    lexPercent env (c :: x) = .ok (.mod, c :: x) ∧
    lexQuestion env (c :: x) = .ok (.placeholder [63], c :: x) ∧
    lexQuestionPg (c :: x) = .ok (.question, c :: x) := by
  have ha := hc.ascii
  have hw := hc.ws
  have hn := hc.numeric
  have e1 : c ≠ 62 := by omega
  have e2 : c ≠ 63 := by omega
  have e3 : c ≠ 64 := by omega
  have e4 : c ≠ 45 := by omega
  have e5 : c ≠ 124 := by omega
  have e6 : c ≠ 38 := by omega
  refine ⟨?_, ?_, ?_, ?_, ?_, ?_⟩
  · simp [lexAt, *]
  · simp [lexAt, *]
  · simp [lexSharp, *]
  · simp [lexPercent, *]
  · simp [lexQuestion, *]
  · simp [lexQuestionPg, *]

/-! ## discharging `Sep` -/

/-- all 13 built-in dialect rows: no ASCII blank continues an identifier or a custom operator -/
theorem builtin_blanks (r : DialectRow) (hr : r ∈ dialects) (c : Nat) (hc : c ∈ [9, 10, 11, 12, 13, 32]) :
    r.asciiIdentPart.getD c false = false ∧ r.asciiCustomOp.getD c false = false ∧
    asciiIsWhitespace.getD c false = true ∧ asciiIsNumeric.getD c false = false ∧
    asciiIsAlphanumeric.getD c false = false := by
  revert r c
  decide +kernel

/-- an ASCII blank is a separator of every `env` that agrees at that character with the tables of a
built-in row and of Rust's `char` predicates (as tabulated from the running code) -/
theorem sep_of_tables (env : Env) (r : DialectRow) (hr : r ∈ dialects) (c : Nat)
    (hc : c ∈ [9, 10, 11, 12, 13, 32])
    (h1 : env.isWhitespace c = asciiIsWhitespace.getD c false)
    (h2 : env.isIdentPart c = r.asciiIdentPart.getD c false)
    (h3 : env.isCustomOpPart c = r.asciiCustomOp.getD c false)
    (h4 : env.isNumeric c = asciiIsNumeric.getD c false)
    (h5 : env.isAlphanumeric c = asciiIsAlphanumeric.getD c false) : Sep env c := by
  obtain ⟨b1, b2, b3, b4, b5⟩ := builtin_blanks r hr c hc
  refine ⟨by rw [h1, b3], ?_, by rw [h2, b1], by rw [h3, b2], by rw [h4, b4], by rw [h5, b5]⟩
  simp only [List.mem_cons, List.not_mem_nil, or_false] at hc
  omega

/-! ## non-vacuity, and the exceptions as concrete witnesses -/

open C09 (genericEnv asciiBit)

/-- the blanks are separators of the Generic dialect (ASCII tables of the running code) -/
theorem generic_sep (un : Bool) : Sep (genericEnv un) 32 ∧ Sep (genericEnv un) 9 ∧ Sep (genericEnv un) 10 ∧
    Sep (genericEnv un) 13 := by
  refine ⟨⟨?_, ?_, ?_, ?_, ?_, ?_⟩, ⟨?_, ?_, ?_, ?_, ?_, ?_⟩, ⟨?_, ?_, ?_, ?_, ?_, ?_⟩,
    ⟨?_, ?_, ?_, ?_, ?_, ?_⟩⟩ <;> cases un <;> decide +kernel

theorem generic_not_redshift (un : Bool) : (genericEnv un).isRedshift = false := by
  cases un <;> decide +kernel

/-- significant tokens of a text (`none` if lexing fails) -/
def sigOf (env : Env) (s : List Nat) : Option (List Token) :=
  (tokenizeSpans env s).toOption.map sig

/-- the cut lemma at work on the deepest look-ahead, `1e+␠5` vs `1e+⏎x`: `Number 1` in both -/
example : (nextToken (genericEnv true) [49, 101, 43, 32, 53]).toOption =
      some (some (.number [49] false, [101, 43, 32, 53])) ∧
    (nextToken (genericEnv true) [49, 101, 43, 10, 120]).toOption =
      some (some (.number [49] false, [101, 43, 10, 120])) := by decide +kernel

/-- `SELECT␠a␠FROM t` with the second run replaced by `⏎/* c */⇥-- d⏎`: same significant tokens -/
example : sigOf (genericEnv true) ([83, 69, 76, 69, 67, 84, 32, 97] ++ [32] ++ [70, 82, 79, 77, 32, 116]) =
    sigOf (genericEnv true) ([83, 69, 76, 69, 67, 84, 32, 97] ++
      [10, 47, 42, 32, 99, 32, 42, 47, 9, 45, 45, 32, 100, 10] ++ [70, 82, 79, 77, 32, 116]) := by
  decide +kernel

private theorem ok_of_toOption {ε α : Type} {r : Except ε α} {v : α} (h : r.toOption = some v) : r = .ok v := by
  cases r with
  | error e => simp [Except.toOption] at h
  | ok a => simp [Except.toOption] at h; rw [h]

private def splitAt3 (env : Env) (s : List Nat) (i j : Nat) :
    List (Entry Token) × List (Entry Token) × List (Entry Token) :=
  let ts := (tokenizeSpans env s).toOption.getD []
  (ts.take i, (ts.drop i).take j, ts.drop (i + j))

/-- the hypotheses of `layout_lexer` are satisfiable: `1␠2` with `␠` ↦ `⏎/**/␠` -/
example : ∃ R', tokenizeSpans (genericEnv true) ([49] ++ [10, 47, 42, 42, 47, 32] ++ [50]) =
      .ok ((splitAt3 (genericEnv true) [49, 32, 50] 1 1).1 ++ R') ∧
    sig ((splitAt3 (genericEnv true) [49, 32, 50] 1 1).1 ++ R') =
      [.number [49] false, .number [50] false] := by
  obtain ⟨R', h, hs⟩ := layout_lexer (genericEnv true) (generic_not_redshift true) [49] [32]
    [10, 47, 42, 42, 47, 32] [50]
    (splitAt3 (genericEnv true) [49, 32, 50] 1 1).1 (splitAt3 (genericEnv true) [49, 32, 50] 1 1).2.1
    (splitAt3 (genericEnv true) [49, 32, 50] 1 1).2.2
    (splitAt3 (genericEnv true) [10, 47, 42, 42, 47, 32, 50] 3 0).1
    (splitAt3 (genericEnv true) [10, 47, 42, 42, 47, 32, 50] 3 0).2.2
    (ok_of_toOption (by decide +kernel)) (by decide +kernel) (by decide +kernel) (by decide +kernel)
    (ok_of_toOption (by decide +kernel)) (by decide +kernel) (by decide +kernel)
    32 10 rfl rfl (generic_sep true).1 (generic_sep true).2.2.1 (by decide)
  refine ⟨R', h, ?_⟩
  rw [hs]
  decide +kernel

/-- the same replacement with `w₂` lexed on its own (`layout_lexer_standalone`): its tokens are
`Newline`, the empty block comment, and the final one-character `Space` -/
example : ∃ R', tokenizeSpans (genericEnv true) ([49] ++ [10, 47, 42, 42, 47, 32] ++ [50]) =
      .ok ((splitAt3 (genericEnv true) [49, 32, 50] 1 1).1 ++ R') ∧
    sig ((splitAt3 (genericEnv true) [49, 32, 50] 1 1).1 ++ R') =
      sig ((splitAt3 (genericEnv true) [49, 32, 50] 1 1).1 ++ (splitAt3 (genericEnv true) [49, 32, 50] 1 1).2.1 ++
        (splitAt3 (genericEnv true) [49, 32, 50] 1 1).2.2) :=
  layout_lexer_standalone (genericEnv true) (generic_not_redshift true) [49] [32]
    [10, 47, 42, 42, 47, 32] [50]
    (splitAt3 (genericEnv true) [49, 32, 50] 1 1).1 (splitAt3 (genericEnv true) [49, 32, 50] 1 1).2.1
    (splitAt3 (genericEnv true) [49, 32, 50] 1 1).2.2
    (splitAt3 (genericEnv true) [10, 47, 42, 42, 47, 32] 2 0).1
    (.whitespace .space, ⟨2, 5⟩, [32]) 32
    (ok_of_toOption (by decide +kernel)) (by decide +kernel) (by decide +kernel) (by decide +kernel)
    (ok_of_toOption (by decide +kernel)) (by decide +kernel) rfl (Or.inl rfl) (generic_sep true).1
    32 10 rfl rfl (generic_sep true).1 (generic_sep true).2.2.1 (by decide)

/-- the MySQL row with Rust's predicates on ASCII -/
def mysqlEnv : Env :=
  { genericEnv true with
    row := dialect_mysql
    isIdentStart := asciiBit dialect_mysql.asciiIdentStart
    isIdentPart := asciiBit dialect_mysql.asciiIdentPart
    isDelimStart := asciiBit dialect_mysql.asciiDelimStart
    isCustomOpPart := asciiBit dialect_mysql.asciiCustomOp }

/-- a whitespace-skipping program: exactly two numbers -/
private def twoNums : Cursor.Prog Token Bool :=
  .next fun a => .next fun b => .peek 0 fun c =>
    match a, b, c with
    | some (.number _ _), some (.number _ _), none => .ret true
    | _, _, _ => .err 7 (some 1)

private theorem twoNums_skipping : Cursor.Skipping twoNums :=
  .next _ fun _ => .next _ fun _ => .peek _ _ fun _ => by split <;> constructor

/-- `layout_parse` on `1␠2` / `1⏎/**/␠2`: both are accepted with the same value -/
example : ∃ ts ts', tokenizeSpans (genericEnv true) ([49] ++ [32] ++ [50]) = .ok ts ∧
    tokenizeSpans (genericEnv true) ([49] ++ [10, 47, 42, 42, 47, 32] ++ [50]) = .ok ts' ∧
    (Cursor.runC isWsTok twoNums ⟨toTL ts, 0⟩ (fun _ => 0) []).shape = some (.inl true) ∧
    (Cursor.runC isWsTok twoNums ⟨toTL ts', 0⟩ (fun _ => 0) []).shape = some (.inl true) := by
  obtain ⟨ts, ts', e1, e2, hs⟩ := layout_parse (genericEnv true) (generic_not_redshift true) [49] [32]
    [10, 47, 42, 42, 47, 32] [50]
    (splitAt3 (genericEnv true) [49, 32, 50] 1 1).1 (splitAt3 (genericEnv true) [49, 32, 50] 1 1).2.1
    (splitAt3 (genericEnv true) [49, 32, 50] 1 1).2.2
    (splitAt3 (genericEnv true) [10, 47, 42, 42, 47, 32, 50] 3 0).1
    (splitAt3 (genericEnv true) [10, 47, 42, 42, 47, 32, 50] 3 0).2.2
    (ok_of_toOption (by decide +kernel)) (by decide +kernel) (by decide +kernel) (by decide +kernel)
    (ok_of_toOption (by decide +kernel)) (by decide +kernel) (by decide +kernel)
    32 10 rfl rfl (generic_sep true).1 (generic_sep true).2.2.1 (by decide) twoNums twoNums_skipping
  have e1' : tokenizeSpans (genericEnv true) ([49] ++ [32] ++ [50]) =
      .ok ((tokenizeSpans (genericEnv true) [49, 32, 50]).toOption.getD []) :=
    ok_of_toOption (by decide +kernel)
  have : ts = (tokenizeSpans (genericEnv true) [49, 32, 50]).toOption.getD [] := by
    rw [e1] at e1'; cases e1'; rfl
  refine ⟨ts, ts', e1, e2, ?_, ?_⟩
  · rw [this]; decide +kernel
  · rw [← hs, this]; decide +kernel

/-- `sep_of_tables` yields the separator property of form feed for the MySQL row -/
example : Sep mysqlEnv 12 :=
  sep_of_tables _ dialect_mysql (by simp [dialects]) 12 (by decide) (by decide +kernel) rfl rfl (by decide +kernel)
    (by decide +kernel)

/-- `@`/`#` followed by `\r`, tab, `\n` (not only by a blank) are `AtSign`/`Sharp` -/
example : (nextToken (genericEnv true) [64, 13, 97]).toOption = some (some (.atSign, [13, 97])) ∧
    (nextToken (genericEnv true) [64, 9, 97]).toOption = some (some (.atSign, [9, 97])) ∧
    (nextToken (genericEnv true) [35, 10, 97]).toOption = some (some (.sharp, [10, 97])) := by
  decide +kernel

/-- the Redshift row with Rust's predicates on ASCII -/
def redshiftEnv : Env :=
  { genericEnv true with
    row := dialect_redshift
    isIdentStart := asciiBit dialect_redshift.asciiIdentStart
    isIdentPart := asciiBit dialect_redshift.asciiIdentPart
    isDelimStart := asciiBit dialect_redshift.asciiDelimStart
    isCustomOpPart := asciiBit dialect_redshift.asciiCustomOp }

/-- **Redshift violates the property text.**  `[␠/**/␠x]` lexes as `[`, `x`, `]` (the character after
the blank run is `/`, so `[` is not a delimiter); with the run replaced by one blank, `[␠x]` is ONE
delimited identifier ` x`.  Both runs lex as whitespace on their own, are blank-padded, and sit
between two tokens of the first text. -/
theorem redshift_counterexample :
    sigOf redshiftEnv ([91] ++ [32, 47, 42, 42, 47, 32] ++ [120, 93]) =
      some [.lBracket, .word ⟨[120], none, none⟩, .rBracket] ∧
    sigOf redshiftEnv ([91] ++ [32] ++ [120, 93]) = some [.word ⟨[32, 120], some 91, none⟩] ∧
    sigOf redshiftEnv [32, 47, 42, 42, 47, 32] = some [] ∧ sigOf redshiftEnv [32] = some [] := by
  decide +kernel

/-- **blank-padded is not enough for line comments**: `␠--x␠` lexes on its own as whitespace only and
starts and ends with a blank, yet in `1␠--x␠2` it swallows `2` (the comment ends at `\n` or at the end
of input).  Hence `h2` of `layout_lexer` speaks about `w₂ ++ b`. -/
theorem unterminated_line_comment_counterexample :
    sigOf (genericEnv true) [32, 45, 45, 120, 32] = some [] ∧
    sigOf (genericEnv true) ([49] ++ [32] ++ [50]) = some [.number [49] false, .number [50] false] ∧
    sigOf (genericEnv true) ([49] ++ [32, 45, 45, 120, 32] ++ [50]) = some [.number [49] false] := by
  decide +kernel

/-- `\r` then `␠` are two tokens, `\r` then `\n` is one: the side condition `hcr` of the cut lemma is
needed for token boundaries (the significant tokens agree all the same) -/
theorem cr_lf_regroups :
    (tokenizeSpans (genericEnv true) [97, 13, 32, 98]).toOption.map (fun ts => ts.map fun (e : Entry Token) => e.slice) =
      some [[97], [13], [32], [98]] ∧
    (tokenizeSpans (genericEnv true) [97, 13, 10, 98]).toOption.map (fun ts => ts.map fun (e : Entry Token) => e.slice) =
      some [[97], [13, 10], [98]] ∧
    sigOf (genericEnv true) [97, 13, 32, 98] = sigOf (genericEnv true) [97, 13, 10, 98] := by
  decide +kernel

end SqlVerif.Props.C07Lexer

import SqlVerif.Lemmas.TclExt
import SqlVerif.Props.C11Ddl
/-!
# C11 on the third statement fragment — transaction-control and session statements are local, scripts of all three fragments concatenate

`Model/Tcl.lean` mirrors `parse_statement` → `parse_start_transaction` / `parse_begin` / `parse_commit` /
`parse_end` / `parse_rollback` / `parse_savepoint` / `parse_release` (with the ad-hoc loop of
`parse_transaction_modes`), `parse_set` (modifiers, ROLE, variable and tuple assignments, TIME ZONE, NAMES,
TRANSACTION, SESSION CHARACTERISTICS), `parse_use`, `parse_discard`, `parse_deallocate`, `parse_close`,
`parse_assert` on real tokens and hands every other statement to the statement model of `Model/Ddl.lean`
(which hands on to `Model/Dml.lean`); stream `tcl`: S-expressions and `to_string()` against the real
`parse_statements()`, all 13 dialects, both values of the trailing-comma option.  For EVERY
configuration record, fuel, recursion limit and token list:

* `tcl_yield`: a successful statement parse consumes a prefix of the tokens — exactly the tokens the
  returned tree keeps (`Stmt.flatten`);
* `tcl_local`: if the modelled statement parser accepts the text `s` completely, it is *local* on `s`
  (`SqlVerif.Stmts.LocalOn`): followed by EOF or by `;` and anything else it returns the same tree and
  stops exactly in front of the `;` (`tcl_semi_rest` is the same for a statement that stops earlier).
  Proof: every parser function of the model repeats a successful run when `; …` is appended
  (`Lemmas/TclExt.lean`, on top of `Lemmas/DdlExt.lean`);
* `script_concat_tcl`: hence (`script_concat` of `Props/C11.lean`) a script `;* s₁ ;+ s₂ ;+ … sₙ ;*` of
  accepted statements of ALL THREE fragments, in any separator layout, parses — with the REAL loop model
  `parseStatements` around the statement model — to `[a₁, …, aₙ]`.  Since the repair of the END tail-drop
  the top-level loop never stops at the keyword `END` (`stmtClass.isEndKw = false`); a lone `END` is the
  statement `COMMIT` (`end_is_commit`), so `BEGIN; …; END` is a three-statement script like any other;
* `tcl_extends_ddl`: what `Model/Ddl.lean` accepts and does not begin with one of the thirteen keywords of
  this fragment is accepted with the same tree.

Partial: the statement kinds of the three fragments; the other statement parsers are decided by the
follower oracle on the real code.
-/
namespace SqlVerif.Props.C11Tcl
open SqlVerif.Pratt SqlVerif.Query SqlVerif.Dml SqlVerif.Ddl SqlVerif.Tcl SqlVerif.Stmts

/-- **yield**: a successful statement parse consumes a prefix of the tokens: `ts = pre ++ rest`,
and `pre` is the in-order token yield of the returned tree -/
theorem tcl_yield (c : TCfg) (fuel limit : Nat) (ts : List Tok) (s : Tcl.Stmt) (rest : List Tok)
    (h : Tcl.parseStmt c fuel limit ts = .ok (s, rest)) : ∃ pre, ts = pre ++ rest ∧ pre = s.flatten :=
  ⟨s.flatten, Tcl.parseStmt_yield c fuel limit ts s rest h, rfl⟩

/-- a statement parsed on `pre` completely is parsed identically on `pre ++ ; :: anything` -/
theorem tcl_semi (c : TCfg) (fuel limit : Nat) (pre : List Tok) (s : Tcl.Stmt) (anything : List Tok)
    (h : Tcl.parseStmt c fuel limit pre = .ok (s, [])) :
    Tcl.parseStmt c fuel limit (pre ++ semi :: anything) = .ok (s, semi :: anything) := by
  simpa using Tcl.parseStmt_semi c anything fuel limit pre s [] h

/-- the general form: a statement that stops in front of `rest` stops there in front of `rest ++ ; …` too -/
theorem tcl_semi_rest (c : TCfg) (fuel limit : Nat) (ts : List Tok) (s : Tcl.Stmt) (rest anything : List Tok)
    (h : Tcl.parseStmt c fuel limit ts = .ok (s, rest)) :
    Tcl.parseStmt c fuel limit (ts ++ semi :: anything) = .ok (s, rest ++ semi :: anything) :=
  Tcl.parseStmt_semi c anything fuel limit ts s rest h

/-- **the modelled statement parser is local** on every statement text it accepts completely -/
theorem tcl_local (c : TCfg) (fuel limit : Nat) (s : List Tok) (a : Tcl.Stmt)
    (h : Tcl.parseStmt c fuel limit s = .ok (a, [])) :
    LocalOn stmtClass (Tcl.parseStmt c fuel limit) s a := by
  intro fo hf
  rcases hf with rfl | ⟨t, r, rfl, ht⟩
  · simpa using h
  · rw [SqlVerif.Props.C11Dml.isSemi_eq ht]
    exact tcl_semi c fuel limit s a r h

/-- an accepted statement text begins a statement -/
theorem tcl_starts (c : TCfg) (fuel limit : Nat) (s : List Tok) (a : Tcl.Stmt) (rest : List Tok)
    (h : Tcl.parseStmt c fuel limit s = .ok (a, rest)) : StartsStmt stmtClass s := by
  obtain ⟨t, r, hs, hn⟩ := Tcl.parseStmt_starts c fuel limit s a rest h
  exact ⟨t, r, hs, hn⟩

/-- **a script of modelled statements parses to the list of their trees**, whatever the layout of
separators (leading, trailing, repeated `;`) -/
theorem script_concat_tcl (c : TCfg) (fuel limit : Nat) (items : List (List Tok × Tcl.Stmt × List Tok))
    (sep0 : List Tok) (hs0 : AllSemis stmtClass sep0) (hsep : ∀ it ∈ items, AllSemis stmtClass it.2.2)
    (hacc : ∀ it ∈ items, Tcl.parseStmt c fuel limit it.1 = .ok (it.2.1, []))
    (hinner : InnerSepsNonEmpty (items.map fun it => (it.1, it.2.2))) :
    Tcl.parseScript c fuel limit (script sep0 (items.map fun it => (it.1, it.2.2))) = .ok (items.map (·.2.1)) :=
  SqlVerif.Props.C11.script_concat stmtClass (Tcl.parseStmt c fuel limit) items sep0 hs0 hsep
    (fun it hit => tcl_starts c fuel limit _ _ _ (hacc it hit))
    (fun it hit => tcl_local c fuel limit _ _ (hacc it hit)) hinner

/-- the first token is none of the thirteen keywords this fragment dispatches on -/
def foreignHead (t : Tok) : Bool :=
  !(t.isKw TK.START || t.isKw TK.BEGIN || t.isKw TK.END_ || t.isKw TK.COMMIT || t.isKw TK.ROLLBACK || t.isKw TK.SAVEPOINT ||
    t.isKw TK.RELEASE || t.isKw TK.SET || t.isKw TK.USE || t.isKw TK.DISCARD || t.isKw TK.DEALLOCATE || t.isKw TK.CLOSE ||
    t.isKw TK.ASSERT)

/-- the fragment extends the second one (and through it the first): what `Model/Ddl.lean` accepts and is
not one of the new statement kinds is accepted with the same tree -/
theorem tcl_extends_ddl (c : TCfg) (fuel limit : Nat) (t : Tok) (r : List Tok) (s : Ddl.Stmt) (rest : List Tok)
    (hf : foreignHead t = true) (h : Ddl.parseStmt c.x fuel limit (t :: r) = .ok (s, rest)) :
    Tcl.parseStmt c fuel limit (t :: r) = .ok (.ddl s, rest) := by
  cases limit with
  | zero => simp [Ddl.parseStmt] at h
  | succ d =>
    simp only [foreignHead, Bool.not_eq_true', Bool.or_eq_false_iff] at hf
    obtain ⟨⟨⟨⟨⟨⟨⟨⟨⟨⟨⟨⟨h1, h2⟩, h3⟩, h4⟩, h5⟩, h6⟩, h7⟩, h8⟩, h9⟩, h10⟩, h11⟩, h12⟩, h13⟩ := hf
    simp [Tcl.parseStmt, h1, h2, h3, h4, h5, h6, h7, h8, h9, h10, h11, h12, h13, h, mapRes]

/-- **a lone `END` is `COMMIT`** (for every configuration, fuel and positive limit): the statement
`END [TRANSACTION | WORK] [AND [NO] CHAIN]` is parsed by the function that parses `COMMIT …` -/
theorem end_is_commit (c : TCfg) (fuel d : Nat) (t : Tok) (r : List Tok) (ht : t.isKw TK.END_ = true)
    (hs : t.isKw TK.START = false) (hb : t.isKw TK.BEGIN = false) :
    Tcl.parseStmt c fuel (d + 1) (t :: r) = Tcl.parseCommit t r := by
  simp [Tcl.parseStmt, ht, hs, hb]

-- ------------------------------------------------------------------ non-vacuity
section Examples
open SqlVerif.Gen
def g : TCfg := TCfg.ofRow dialect_generic
def lite : TCfg := TCfg.ofRow dialect_sqlite
def wd (s : String) : Tok := .word (str s) none none
def kw (s : String) : Tok := .word (str s) none (some (kwIndex s))
def num (s : String) : Tok := .number (str s) false
def lp : Tok := .sym .LParen
def rp : Tok := .sym .RParen
def cm : Tok := .sym .Comma

/-- `START TRANSACTION READ ONLY, ISOLATION LEVEL REPEATABLE READ READ WRITE` -/
def s1 : List Tok :=
  [kw "START", kw "TRANSACTION", kw "READ", kw "ONLY", cm, kw "ISOLATION", kw "LEVEL", kw "REPEATABLE", kw "READ", kw "READ", kw "WRITE"]
/-- `ROLLBACK WORK AND NO CHAIN TO SAVEPOINT sp1` -/
def s2 : List Tok := [kw "ROLLBACK", kw "WORK", kw "AND", kw "NO", kw "CHAIN", kw "TO", kw "SAVEPOINT", wd "sp1"]
/-- `SET LOCAL a.b = 1, 'x', c + 2` -/
def s3 : List Tok :=
  [kw "SET", kw "LOCAL", wd "a", .sym .Period, wd "b", .sym .Eq, num "1", cm, .sqs (str "x"), cm, wd "c", .sym .Plus, num "2"]
/-- `SET (a, b) = (1, 2)` -/
def s4 : List Tok := [kw "SET", lp, wd "a", cm, wd "b", rp, .sym .Eq, lp, num "1", cm, num "2", rp]
/-- `SET SESSION CHARACTERISTICS AS TRANSACTION ISOLATION LEVEL SERIALIZABLE` (CHARACTERISTICS is no keyword) -/
def s5 : List Tok :=
  [kw "SET", kw "SESSION", wd "CHARACTERISTICS", kw "AS", kw "TRANSACTION", kw "ISOLATION", kw "LEVEL", kw "SERIALIZABLE"]
/-- `END` -/
def s6 : List Tok := [kw "END"]
/-- `BEGIN` -/
def s7 : List Tok := [kw "BEGIN"]
/-- `INSERT INTO t VALUES (1)` (first fragment) and `CREATE VIEW v AS SELECT 1` (second fragment) -/
def s8 : List Tok := [kw "INSERT", kw "INTO", wd "t", kw "VALUES", lp, num "1", rp]
def s9 : List Tok := [kw "CREATE", kw "VIEW", wd "v", kw "AS", kw "SELECT", num "1"]
/-- `ASSERT a > 0 AS 'm'` -/
def s10 : List Tok := [kw "ASSERT", wd "a", .sym .Gt, num "0", kw "AS", .sqs (str "m")]

def accepts (s : List Tok) : Bool := match Tcl.parseStmt g 400 50 s with | .ok (_, []) => true | _ => false

example : accepts s1 = true ∧ accepts s2 = true ∧ accepts s3 = true ∧ accepts s4 = true ∧ accepts s5 = true ∧
    accepts s6 = true ∧ accepts s7 = true ∧ accepts s8 = true ∧ accepts s9 = true ∧ accepts s10 = true := by
  decide +kernel

/-- the script `; BEGIN ;; INSERT … ; CREATE VIEW … ; SET … ; END` (all three fragments, END at top level
is a statement) parses to the five trees, the tokens of each statement are its yield, `END` gives
the tree of a COMMIT, and `COMMIT ROLLBACK …` without a separator is rejected by the loop -/
example :
    (match Tcl.parseScript g 400 50 ([semi] ++ s7 ++ [semi, semi] ++ s8 ++ [semi] ++ s9 ++ [semi] ++ s3 ++ [semi] ++ s6),
        Tcl.parseStmt g 400 50 s7, Tcl.parseStmt g 400 50 s8, Tcl.parseStmt g 400 50 s9, Tcl.parseStmt g 400 50 s3,
        Tcl.parseStmt g 400 50 s6 with
     | .ok [a, b, d, e, x], .ok (a', []), .ok (b', []), .ok (d', []), .ok (e', []), .ok (x', []) =>
       a == a' && b == b' && d == d' && e == e' && x == x' && a.flatten == s7 && b.flatten == s8 && d.flatten == s9 &&
         e.flatten == s3 && x == .commit (kw "END") [] []
     | _, _, _, _, _, _ => false) = true ∧
    (match Tcl.parseScript g 400 50 ([kw "COMMIT"] ++ s2) with | .error .expectedEnd => true | _ => false) = true := by
  decide +kernel

/-- `tcl_yield` on a statement that stops early: `COMMIT AND CHAIN x` consumes `COMMIT AND CHAIN`; the SQLite
modifier belongs to the yield where the dialect has it (`BEGIN EXCLUSIVE TRANSACTION`), elsewhere `BEGIN`
stops in front of `EXCLUSIVE` -/
example :
    (match Tcl.parseStmt g 100 50 [kw "COMMIT", kw "AND", kw "CHAIN", wd "x"] with
     | .ok (s, rest) => s.flatten == [kw "COMMIT", kw "AND", kw "CHAIN"] && rest == [wd "x"]
     | _ => false) = true ∧
    (match Tcl.parseStmt lite 100 50 [kw "BEGIN", kw "EXCLUSIVE", kw "TRANSACTION"] with
     | .ok (.begin _ md noise [], []) => md == [kw "EXCLUSIVE"] && noise == [kw "TRANSACTION"]
     | _ => false) = true ∧
    (match Tcl.parseStmt (TCfg.ofRow dialect_postgresql) 100 50 [kw "BEGIN", kw "EXCLUSIVE", kw "TRANSACTION"] with
     | .ok (.begin _ [] [] [], rest) => rest == [kw "EXCLUSIVE", kw "TRANSACTION"]
     | _ => false) = true := by decide +kernel
end Examples

/-- The full property: every statement kind of every dialect is local (not proved: only the
statement kinds of the three fragments are modelled; the rest is searched by the follower oracle). -/
def FullStatement : Prop :=
  ∀ (ps : List Tok → Except Err (Tcl.Stmt × List Tok)) (s : List Tok) (a : Tcl.Stmt),
    ps s = .ok (a, []) → LocalOn stmtClass ps s a

end SqlVerif.Props.C11Tcl

import SqlVerif.Lemmas.GraphLemmas
import SqlVerif.Lemmas.SetOpsLemmas
import SqlVerif.Gen.CallGraph
/-!
# C03 — nesting depth is bounded by the recursion limit, never by the stack

`Gen/CallGraph.lean` is the parser's static call graph, guard set and a rank certificate,
re-extracted from the Rust sources with `syn` on every run.  The generic theorem
(`Lemmas/GraphLemmas.lean`, all graphs) turns the kernel-checked certificate into a bound on the
length of *every* call chain that holds at most `L` guarded activations — for every input,
because a call chain is a path of the static graph whatever the tokens are.

Edges removed from the obligation are listed in `/verif/c03_discharged.json`:
* `parse_remaining_set_exprs → parse_boxed_query_body`: bounded by the strictly increasing
  precedence argument, theorem `setop_nesting_bounded` below;
* `parse_interval → parse_prefix`: an unguarded cycle of the current code (known finding).
-/
namespace SqlVerif.Props.C03
open SqlVerif.Graph SqlVerif.Gen.CallGraph

def guardedFn (v : Nat) : Bool := guardedTree.get v != 0
def rankFn (v : Nat) : Nat := rankTree.get v

/-- the search trees are the tables (so the informational lists and the trees agree) -/
theorem trees_are_tables :
    rankTree.toList = (List.range nNodes).zip rank ∧
    guardedTree.toList = (List.range nNodes).zip (guarded.map fun b => if b then 1 else 0) := by
  decide +kernel

/-- side condition on the graph the code has *now*: along every call edge whose target takes no
depth guard the rank strictly decreases, i.e. the unguarded sub-graph is acyclic -/
theorem certificate_checks : certOk edges guardedFn rankFn = true := by decide +kernel

theorem rank_table_bounded : rankTree.all (fun r => decide (r ≤ maxRank)) = true := by decide +kernel

theorem rank_bounded (v : Nat) : rankFn v ≤ maxRank := BT.get_le rankTree maxRank rank_table_bounded v

/-- every chain of parser calls that holds at most `L` depth guards is at most
`(L+1)·(maxRank+1)` frames long — independently of the input -/
theorem call_chain_bounded (L : Nat) (p : List Nat) (hp : IsPath edges p)
    (hL : guardedCount guardedFn p ≤ L) : p.length ≤ (L + 1) * (maxRank + 1) :=
  chain_bounded edges guardedFn rankFn maxRank L certificate_checks rank_bounded p hp hL

/-- Higher-order helpers (`parse_comma_separated`, `maybe_parse`, `parse_parenthesized`, … listed as
`ho_helpers` by the translator) are transparent in the static graph: what a closure passed from `f`
calls is an edge from `f`. A native chain therefore equals a static path with at most `h` extra
frames (helper frames and the closure frame) per edge; the dynamic check removes exactly those
frames before comparing sampled stacks with the graph. The native depth is then bounded too. -/
theorem native_chain_bounded (L h pathLen extra : Nat)
    (hp : pathLen ≤ (L + 1) * (maxRank + 1)) (he : extra ≤ h * pathLen) :
    pathLen + extra ≤ (h + 1) * ((L + 1) * (maxRank + 1)) := by
  have h1 : h * pathLen ≤ h * ((L + 1) * (maxRank + 1)) := Nat.mul_le_mul_left h hp
  have e : (h + 1) * ((L + 1) * (maxRank + 1)) = h * ((L + 1) * (maxRank + 1)) + (L + 1) * (maxRank + 1) := by
    rw [Nat.add_mul]; simp
  rw [e]; omega

/-- the depth counter is restored when a guarded construct ends, on success and on error -/
theorem guard_restores {ε α : Type} (rle : ε) (body : Nat → Except ε α × Nat)
    (hb : ∀ d, (body d).2 = d) (k d : Nat) : (nestGuards rle body k d).2 = d :=
  nestGuards_restores rle body hb k d

/-- `k` nested guarded constructs under remaining depth `d`: the limit error iff `k > d` -/
theorem limit_iff_too_deep {ε α : Type} (rle : ε) (body : Nat → Except ε α × Nat) (k d : Nat) :
    (d < k → (nestGuards rle body k d).1 = .error rle) ∧
    (k ≤ d → (nestGuards rle body k d).1 = (body (d - k)).1) :=
  ⟨nestGuards_limit rle body k d, nestGuards_within rle body k d⟩

/-- siblings: a sequence of constructs each nested `k ≤ d` deep never trips the limit, however long -/
theorem siblings_ok {ε α : Type} (rle : ε) (body : Nat → Except ε α × Nat) (hb : ∀ d, (body d).2 = d)
    (k d : Nat) (hk : k ≤ d) (m : Nat) :
    (Nat.repeat (fun st : Nat => (nestGuards rle body k st).2) m d) = d ∧
    (nestGuards rle body k d).1 = (body (d - k)).1 := by
  refine ⟨?_, nestGuards_within rle body k d hk⟩
  induction m with
  | zero => rfl
  | succ m ih =>
    show (nestGuards rle body k (Nat.repeat _ m d)).2 = d
    rw [ih]
    exact nestGuards_restores rle body hb k d

/-- the set-operation cycle: starting from precedence 0, at most 3 `parse_query_body` activations
are ever nested through the loop, for every fuel and every token list -/
theorem setop_nesting_bounded (fuel : Nat) (ts : List SqlVerif.SetOps.STok) (e rest d)
    (h : SqlVerif.SetOps.queryBody fuel 0 ts = some (e, rest, d)) : d ≤ 3 := by
  have := (SqlVerif.SetOps.depth_bound fuel).1 0 ts e rest d h
  simpa [SqlVerif.SetOps.levelsAbove] using this

-- non-vacuity: the graph has guarded and unguarded nodes, real edges, and a non-trivial rank
example : 0 < maxRank ∧ edges.length > 100 ∧ guarded.any id = true ∧ nNodes = rank.length := by decide +kernel
example : (SqlVerif.SetOps.queryBody 20 0
    [.atom 1, .op .union 0, .atom 2, .op .intersect 0, .atom 3, .op .except 0, .atom 4]).map (·.2.2) = some 3 := by
  decide
example : (SqlVerif.SetOps.queryBody 20 0
    [.atom 1, .op .union 0, .atom 2, .op .intersect 0, .atom 3]).map (·.1) =
    some (.setOp (.atom 1) .union 0 (.setOp (.atom 2) .intersect 0 (.atom 3))) := by
  decide

/-- The full property additionally needs: the discharged finding edges closed, the real stack
frame sizes (not modelled), and that the extracted graph over-approximates the dynamic calls. -/
def FullStatement : Prop :=
  ∀ (L : Nat) (p : List Nat), IsPath (edges ++ dischargedEdges) p →
    guardedCount guardedFn p ≤ L → p.length ≤ (L + 1) * (maxRank + 1)

end SqlVerif.Props.C03

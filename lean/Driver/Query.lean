import Driver.Proto
import Driver.Pratt
import SqlVerif.Model.QueryPrint
/-! Stream `queries` (properties C01 / C05 / C11 / C13 on the query fragment):
`queries <dialect> <trailing_commas 0|1> <limit> <tokens>` → `OK <sexp>;<sexp>… TEXT <hex text>` |
`ERR:rle` | `ERR:syntax` | `UNSUPPORTED`. -/
namespace Driver.Qr
open SqlVerif.Pratt SqlVerif.Query Driver

def qcfgs : List (String × QCfg) := SqlVerif.Gen.dialects.map fun r => (r.name, QCfg.ofRow r)

def qcfgOf (name : String) : Option QCfg := (qcfgs.find? fun p => p.1 == name).map (·.2)

def errClass : Err → String
  | .rle => "ERR:rle"
  | .syntax _ => "ERR:syntax"
  | .unsupported => "UNSUPPORTED"
  | .fuel => "FUEL"

def joinTexts : List (Option W) → Option W
  | [] => some []
  | [t] => t
  | t :: rest =>
    match t, joinTexts rest with
    | some a, some b => some (a ++ [59, 32] ++ b)
    | _, _ => none

def handleQueries (args : List String) : String :=
  match args with
  | [d, tc, lim, toks] =>
    match qcfgOf d, lim.toNat? with
    | some c0, some l =>
      let c := c0.withTrailing (tc == "1")
      let ts := Pr.decodeToks toks
      match parseScript c (16 * ts.length + 8 * l + 128) l ts with
      | .ok qs =>
        match joinTexts (qs.map Query.showText) with
        | some t => "OK " ++ ";".intercalate (qs.map Query.sexp) ++ " TEXT " ++ encodeCps t
        | none => "NOTEXT " ++ ";".intercalate (qs.map Query.sexp)
      | .error (.stmt e) => errClass e
      | .error .expectedEnd => "ERR:syntax"
      | .error .fuel => "FUEL"
    | _, _ => "bad-dialect"
  | _ => "bad-request"

end Driver.Qr

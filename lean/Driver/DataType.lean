import Driver.Proto
import SqlVerif.Model.DataType
import SqlVerif.Model.Keywords
import SqlVerif.Gen.Keywords
import SqlVerif.Gen.Reserved
import SqlVerif.Gen.Dialects
/-! Streams `dtparse` and `dtprint` (property C18).

`dtparse \t dialect \t limit \t tokens`   →  `OK <sexp> REST <n>` | `ERR:…` | `UNSUPPORTED`
`dtprint \t dialect \t sexp \t modmap`    →  `TOKS <tokens>` | `UNSUPPORTED`

`tokens` is the rendering of `canon.rs` (whitespace already dropped); `sexp` the canonical
S-expression of a `DataType` (`c18.rs::dt_sexp` = `DT.sexp`); `modmap` gives, for every raw
custom-type modifier of the value, the tokens the real lexer produces on it:
`<hex>=<tokens>` entries joined by `|`, `<hex>=ERR` when it does not lex, `-` when empty. -/
namespace Driver.DTyD
open SqlVerif.DTy Driver
open SqlVerif.Pratt (Sym)

/-- keyword spelling ↦ class, for every keyword the model names -/
def kwTable : List (String × DKw) :=
  [("BOOLEAN", .BOOLEAN), ("BOOL", .BOOL), ("FLOAT", .FLOAT), ("REAL", .REAL), ("FLOAT4", .FLOAT4),
   ("FLOAT32", .FLOAT32), ("FLOAT64", .FLOAT64), ("FLOAT8", .FLOAT8), ("DOUBLE", .DOUBLE),
   ("TINYINT", .TINYINT), ("INT2", .INT2), ("SMALLINT", .SMALLINT), ("MEDIUMINT", .MEDIUMINT),
   ("INT", .INT), ("INT4", .INT4), ("INT8", .INT8), ("INT16", .INT16), ("INT32", .INT32),
   ("INT64", .INT64), ("INT128", .INT128), ("INT256", .INT256), ("INTEGER", .INTEGER),
   ("BIGINT", .BIGINT), ("UINT8", .UINT8), ("UINT16", .UINT16), ("UINT32", .UINT32),
   ("UINT64", .UINT64), ("UINT128", .UINT128), ("UINT256", .UINT256), ("VARCHAR", .VARCHAR),
   ("NVARCHAR", .NVARCHAR), ("CHARACTER", .CHARACTER), ("CHAR", .CHAR), ("CLOB", .CLOB),
   ("BINARY", .BINARY), ("VARBINARY", .VARBINARY), ("BLOB", .BLOB), ("BYTES", .BYTES), ("UUID", .UUID),
   ("DATE", .DATE), ("DATE32", .DATE32), ("DATETIME", .DATETIME), ("DATETIME64", .DATETIME64),
   ("TIMESTAMP", .TIMESTAMP), ("TIMESTAMPTZ", .TIMESTAMPTZ), ("TIME", .TIME), ("TIMETZ", .TIMETZ),
   ("INTERVAL", .INTERVAL), ("JSON", .JSON), ("JSONB", .JSONB), ("REGCLASS", .REGCLASS),
   ("STRING", .STRING), ("FIXEDSTRING", .FIXEDSTRING), ("TEXT", .TEXT), ("BYTEA", .BYTEA),
   ("NUMERIC", .NUMERIC), ("DECIMAL", .DECIMAL), ("DEC", .DEC), ("BIGNUMERIC", .BIGNUMERIC),
   ("BIGDECIMAL", .BIGDECIMAL), ("ENUM", .ENUM), ("SET", .SET), ("ARRAY", .ARRAY), ("STRUCT", .STRUCT),
   ("UNION", .UNION), ("NULLABLE", .NULLABLE), ("LOWCARDINALITY", .LOWCARDINALITY), ("MAP", .MAP),
   ("NESTED", .NESTED), ("TUPLE", .TUPLE), ("TRIGGER", .TRIGGER), ("PRECISION", .PRECISION),
   ("VARYING", .VARYING), ("LARGE", .LARGE), ("OBJECT", .OBJECT), ("UNSIGNED", .UNSIGNED),
   ("WITH", .WITH), ("WITHOUT", .WITHOUT), ("ZONE", .ZONE), ("MAX", .MAX), ("CHARACTERS", .CHARACTERS),
   ("OCTETS", .OCTETS)] ++
  -- first keywords of `parse_column_def`'s COLLATE / CONSTRAINT / `parse_optional_column_option`
  (["CONSTRAINT", "COLLATE", "NOT", "COMMENT", "NULL", "DEFAULT", "MATERIALIZED", "ALIAS", "EPHEMERAL",
    "PRIMARY", "UNIQUE", "REFERENCES", "CHECK", "AUTO_INCREMENT", "AUTOINCREMENT", "ASC", "DESC", "ON",
    "GENERATED", "OPTIONS", "AS", "IDENTITY"].map fun n => (n, DKw.colOpt))

/-- class of the `i`-th entry of `ALL_KEYWORDS` -/
def classOfIndex (i : Nat) : DKw :=
  let name := cpsToString (SqlVerif.Gen.keywordsList.getD i [])
  match kwTable.find? (·.1 == name) with
  | some (_, k) => k
  | none => if SqlVerif.Gen.reservedForColumnAlias.contains i then .otherRca else .other

def classTable : Array DKw := (Array.range SqlVerif.Gen.keywordsList.length).map classOfIndex

def classOf (k : Option Nat) : DKw :=
  match k with
  | none => .noKw
  | some i => classTable.getD i .other

def upperAscii (w : List Nat) : List Nat := w.map fun c => if 97 ≤ c ∧ c ≤ 122 then c - 32 else c

def kwIndexOf (v : List Nat) : Option Nat := SqlVerif.Keywords.bsearch SqlVerif.Gen.keywords (upperAscii v)

def quoteWrap (pre : String) (v : List Nat) : Option (List Nat) :=
  some ((pre.toList.map Char.toNat) ++ [39] ++ v ++ [39])

def decodeTok (s : String) : Tok :=
  match s.splitOn ":" with
  | ["Word", v, q, k] =>
    .word (decodeCps v) (match decodeCps q with | [c] => some c | _ => none)
      (classOf (if k == "none" then none else k.toNat?))
  | ["Number", v, l] => .number (decodeCps v) (l == "1")
  | ["SingleQuotedString", v] => .sqs (decodeCps v)
  | ["DoubleQuotedString", v] => .dqs (decodeCps v)
  | ["EscapedStringLiteral", v] => .escs (decodeCps v)
  | ["UnicodeStringLiteral", v] => .unis (decodeCps v)
  | ["NationalStringLiteral", v] => .other (quoteWrap "N" (decodeCps v))
  | ["HexStringLiteral", v] => .other (quoteWrap "X" (decodeCps v))
  | ["SingleQuotedByteStringLiteral", v] => .other (quoteWrap "B" (decodeCps v))
  | ["SingleQuotedRawStringLiteral", v] => .other (quoteWrap "R" (decodeCps v))
  | ["Placeholder", v] => .other (some (decodeCps v))
  | ["CustomBinaryOperator", v] => .customOp (decodeCps v)
  | ["Char", v] => .other ((parseHex v).map fun c => [c])
  | [n] => match Sym.ofName n with | some x => .sym x | none => .other none
  | _ => .other none

def decodeToks (s : String) : List Tok :=
  if s.isEmpty || s == "-" then [] else (s.splitOn ";").map decodeTok

def cfgOfRow (r : SqlVerif.Gen.DialectRow) : Cfg :=
  { isGeneric := r.name == "generic", isBigQuery := r.name == "bigquery",
    isClickHouse := r.name == "clickhouse", isDuckDb := r.name == "duckdb",
    isPostgres := r.name == "postgresql", isSnowflake := r.name == "snowflake",
    trailingCommas := r.flags.supports_trailing_commas,
    dqWord := r.asciiDelimStart.getD 34 false,
    lbWord := r.asciiDelimStart.getD 91 false && r.name != "redshift" }

def rowOf (name : String) : Option SqlVerif.Gen.DialectRow := SqlVerif.Gen.dialects.find? (·.name == name)

def errLine : Err → String
  | .rle => "ERR:rle"
  | .expected what found =>
    match (match found with | none => some (SqlVerif.Pratt.str "EOF") | some t => t.display) with
    | some d => "ERR:syntax:" ++ encodeCps (SqlVerif.Pratt.str "Expected: " ++ what ++ SqlVerif.Pratt.str ", found: " ++ d)
    | none => "UNSUPPORTED"
  | .badU64 s k =>
    let why := match k with
      | 0 => "invalid digit found in string"
      | 1 => "number too large to fit in target type"
      | _ => "cannot parse integer from empty string"
    "ERR:syntax:" ++ encodeCps (SqlVerif.Pratt.str "Could not parse '" ++ s ++ SqlVerif.Pratt.str ("' as u64: " ++ why))
  | .unmatchedDT => "ERR:unmatched-dt"
  | .unmatchedStruct => "ERR:unmatched-struct"
  | .unsupported => "UNSUPPORTED"
  | .fuel => "FUEL"

/-- `tc`: `none` = the dialect's own option (`Parser::new`), `some b` = `trailing_commas` forced to `b` -/
def parseAnswer (d lim toks : String) (tc : Option Bool) : String :=
  match rowOf d, lim.toNat? with
  | some r, some l =>
    let ts := decodeToks toks
    let c := cfgOfRow r
    let c := match tc with | none => c | some b => { c with trailingCommas := b }
    match parseDataType c (2 * ts.length + 8) l ts with
    | .ok (t, rest) => "OK " ++ t.sexp ++ " REST " ++ toString rest.length
    | .error e => errLine e
  | _, _ => "bad-dialect"

def handleParse (args : List String) : String :=
  match args with
  | [d, lim, toks] => parseAnswer d lim toks none
  | [d, lim, toks, tc] => parseAnswer d lim toks (some (tc == "1"))
  | _ => "bad-request"

-- ------------------------------------------------------------------ S-expression reader
inductive S
  | atom (s : String)
  | list (l : List S)
deriving Inhabited

def lexS (s : String) : List String :=
  let (acc, cur) := s.foldl (fun (p : List String × String) ch =>
    if ch == '(' || ch == ')' then ((if p.2.isEmpty then p.1 else p.2 :: p.1) |> fun a => (String.singleton ch :: a, ""))
    else if ch == ' ' then ((if p.2.isEmpty then p.1 else p.2 :: p.1), "")
    else (p.1, p.2.push ch)) ([], "")
  ((if cur.isEmpty then acc else cur :: acc)).reverse

mutual
partial def readS : List String → Option (S × List String)
  | "(" :: r => (readList r []).map fun (l, r') => (S.list l, r')
  | ")" :: _ => none
  | a :: r => some (S.atom a, r)
  | [] => none
partial def readList : List String → List S → Option (List S × List String)
  | ")" :: r, acc => some (acc.reverse, r)
  | [], _ => none
  | ts, acc => match readS ts with
    | some (x, r) => readList r (x :: acc)
    | none => none
end

def strOfAtom (a : String) : Option (List Nat) :=
  if a == "-" then some [] else
  let parts := a.splitOn "_"
  let vals := parts.filterMap parseHex
  if vals.length == parts.length then some vals else none

def optNatOf : S → Option (Option Nat)
  | .atom "none" => some none
  | .atom a => a.toNat?.map some
  | _ => none

def identOf : S → Option Ident
  | .list [.atom "id", .atom v, .atom q] =>
    match strOfAtom v with
    | some w => if q == "-" then some ⟨w, none⟩ else (parseHex q).map fun c => ⟨w, some c⟩
    | none => none
  | _ => none

def simpleKinds : List SimpleKind :=
  [.uuid, .int16, .int32, .int64, .int128, .int256, .uint8, .uint16, .uint32, .uint64, .uint128,
   .uint256, .float4, .float32, .float64, .real, .float8, .double, .doublePrecision, .bool, .boolean,
   .date, .date32, .interval, .json, .jsonb, .regclass, .text, .bytea, .unspecified, .trigger]
def lenKinds : List LenKind :=
  [.characterLargeObject, .charLargeObject, .clob, .binary, .varbinary, .blob, .bytes, .float, .datetime, .string]
def intKinds : List IntKind := [.tinyInt, .int2, .smallInt, .mediumInt, .int, .int4, .int8, .integer, .bigInt]
def charKinds : List CharKind := [.character, .char, .characterVarying, .charVarying, .varchar, .nvarchar]
def numKinds : List NumKind := [.numeric, .decimal, .bigNumeric, .bigDecimal, .dec]
def tzInfos : List TzInfo := [.none, .withTz, .withoutTz, .tz]

def charLenOf : S → Option (Option CharLen)
  | .atom "none" => some none
  | .atom "max" => some (some .max)
  | .list [.atom "len", .atom n, .atom u] =>
    match n.toNat?, u with
    | some k, "none" => some (some (.int k none))
    | some k, "Characters" => some (some (.int k (some .characters)))
    | some k, "Octets" => some (some (.int k (some .octets)))
    | _, _ => none
  | _ => none

def numInfoOf : S → Option NumInfo
  | .atom "none" => some .none
  | .list [.atom "p", .atom p] => p.toNat?.map .prec
  | .list [.atom "ps", .atom p, .atom s] =>
    match p.toNat?, s.toNat? with
    | some a, some b => some (.precScale a b)
    | _, _ => none
  | _ => none

def strsOf (l : List S) : Option (List (List Nat)) :=
  l.mapM fun x => match x with | .atom a => strOfAtom a | _ => none

mutual
partial def dtOf : S → Option DT
  | .list [.atom "Tuple"] => some (.tuple .nil)
  | .list [.atom "Nested"] => some (.nested .nil)
  | .list [.atom "Union"] => some (.union .nil)
  | .list [.atom "Enum"] => some (.enum [])
  | .list [.atom "Set"] => some (.set [])
  | .list [.atom n] => (simpleKinds.find? (·.name == n)).map .simple
  | .list [.atom "Array", .atom "None"] => some .arrayNone
  | .list [.atom "Array", .list [.atom "Angle", t]] => (dtOf t).map .arrayAngle
  | .list [.atom "Array", .list [.atom "Paren", t]] => (dtOf t).map .arrayParen
  | .list [.atom "Array", .list [.atom "Square", t, sz]] =>
    match dtOf t, optNatOf sz with
    | some x, some s => some (.arraySquare x s)
    | _, _ => none
  | .list [.atom "Nullable", t] => (dtOf t).map .nullable
  | .list [.atom "LowCardinality", t] => (dtOf t).map .lowCardinality
  | .list [.atom "Map", k, v] =>
    match dtOf k, dtOf v with
    | some a, some b => some (.map a b)
    | _, _ => none
  | .list (.atom "Tuple" :: fs) => (fieldsOf "f" fs).map .tuple
  | .list (.atom "Nested" :: fs) => (fieldsOf "col" fs).map .nested
  | .list (.atom "Union" :: fs) => (fieldsOf "u" fs).map .union
  | .list (.atom "Struct" :: .atom b :: fs) =>
    match (if b == "Paren" then some Bracket.paren else if b == "Angle" then some Bracket.angle else none), fieldsOf "f" fs with
    | some br, some x => some (.struct x br)
    | _, _ => none
  | .list (.atom "Enum" :: ls) => (strsOf ls).map .enum
  | .list (.atom "Set" :: ls) => (strsOf ls).map .set
  | .list [.atom "Custom", .list (.atom "name" :: ids), .list (.atom "mods" :: ms)] =>
    match ids.mapM identOf, strsOf ms with
    | some a, some b => some (.custom a b)
    | _, _ => none
  | .list [.atom "FixedString", .atom n] => n.toNat?.map .fixedString
  | .list [.atom "Datetime64", .atom p, .atom "none"] => p.toNat?.map fun k => .datetime64 k none
  | .list [.atom "Datetime64", .atom p, .list [.atom "s", .atom z]] =>
    match p.toNat?, strOfAtom z with
    | some k, some w => some (.datetime64 k (some w))
    | _, _ => none
  | .list [.atom "Time", p, .atom tz] =>
    match optNatOf p, tzInfos.find? (·.name == tz) with
    | some a, some b => some (.time .time a b)
    | _, _ => none
  | .list [.atom "Timestamp", p, .atom tz] =>
    match optNatOf p, tzInfos.find? (·.name == tz) with
    | some a, some b => some (.time .timestamp a b)
    | _, _ => none
  | .list [.atom n, x] =>
    match lenKinds.find? (·.name == n) with
    | some k => (optNatOf x).map (.withLen k)
    | none =>
      match intKinds.find? (·.name == n) with
      | some k => (optNatOf x).map fun l => .int k l false
      | none =>
        match intKinds.find? (fun k => "Unsigned" ++ k.name == n) with
        | some k => (optNatOf x).map fun l => .int k l true
        | none =>
          match charKinds.find? (·.name == n) with
          | some k => (charLenOf x).map (.charLike k)
          | none =>
            match numKinds.find? (·.name == n) with
            | some k => (numInfoOf x).map (.exactNum k)
            | none => none
  | _ => none
partial def fieldsOf (tag : String) : List S → Option Fields
  | [] => some .nil
  | .list [.atom t, n, ty] :: rest =>
    if t != tag then none else
    let name : Option (Option Ident) := match n with
      | .atom "none" => some none
      | x => (identOf x).map some
    match name, dtOf ty, fieldsOf tag rest with
    | some nm, some x, some r => some (.cons nm x r)
    | _, _, _ => none
  | _ => none
end

-- ------------------------------------------------------------------ printing side
def encTok (t : Tok) : Option String :=
  match t with
  | .word v q k =>
    let idx := if q.isNone then kwIndexOf v else none
    -- the class the model printed must be the class of the real keyword lookup
    if classOf idx != k then none else
    some s!"Word:{encodeCps v}:{match q with | some c => hexOf c | none => "-"}:{match idx with | some i => toString i | none => "none"}"
  | .number s l => some s!"Number:{encodeCps s}:{if l then 1 else 0}"
  | .sqs s => some s!"SingleQuotedString:{encodeCps s}"
  | .dqs s => some s!"DoubleQuotedString:{encodeCps s}"
  | .escs s => some s!"EscapedStringLiteral:{encodeCps s}"
  | .unis s => some s!"UnicodeStringLiteral:{encodeCps s}"
  | .sym s => some s.name
  | .customOp s => some s!"CustomBinaryOperator:{encodeCps s}"
  | .other _ => none

def parseModMap (s : String) : List (List Nat × Option (List Tok)) :=
  if s == "-" || s.isEmpty then [] else
  (s.splitOn "|").filterMap fun e =>
    match e.splitOn "=" with
    | [k, v] => some (decodeCps k, if v == "ERR" then none else some (decodeToks v))
    | _ => none

def isPlainAscii (row : SqlVerif.Gen.DialectRow) (v : List Nat) : Bool :=
  match v with
  | [] => false
  | c :: r =>
    (c == 95 || (65 ≤ c && c ≤ 90) || (97 ≤ c && c ≤ 122)) && row.asciiIdentStart.getD c false &&
    r.all fun x => (x == 95 || (65 ≤ x && x ≤ 90) || (97 ≤ x && x ≤ 122) || (48 ≤ x && x ≤ 57)) && row.asciiIdentPart.getD x false

def cleanPayload (q : Nat) (v : List Nat) : Bool :=
  !v.contains q && !v.contains 92 && !(q == 91 && v.contains 93) && v.all (· < 128)

/-- an identifier whose `Display` text lexes back to the single token `identTok` names -/
def identSafe (row : SqlVerif.Gen.DialectRow) (i : Ident) : Bool :=
  match i.quote with
  | none => isPlainAscii row i.value
  | some q =>
    if q == 39 then cleanPayload 39 i.value
    else if q == 34 then cleanPayload 34 i.value && (row.asciiDelimStart.getD 34 false || true) && !i.value.isEmpty
    else (q == 96 || q == 91) && row.asciiDelimStart.getD q false && cleanPayload q i.value && !i.value.isEmpty &&
      -- Redshift: `[` opens an identifier only in front of an identifier start (`is_proper_identifier_inside_quotes`)
      (row.name != "redshift" || q != 91 || row.asciiIdentStart.getD (i.value.headD 0) false)

def labelSafe (v : List Nat) : Bool := cleanPayload 39 v

/-- the value prints to the empty text -/
def printsNothing : DT → Bool
  | .simple .unspecified => true
  | .custom [] [] => true
  | _ => false

/-- `<` directly followed by `>` lexes as `<>` (`Neq`): outside the model's `retok` -/
def emptyAngle : DT → Bool
  | .arrayAngle t => printsNothing t
  | .struct (.cons none t .nil) .angle => printsNothing t
  | _ => false

mutual
partial def dtSafe (row : SqlVerif.Gen.DialectRow) : DT → Bool
  | .custom name _ => !name.isEmpty && name.all (identSafe row)
  | .enum ls | .set ls => ls.all labelSafe
  | .datetime64 _ (some z) => labelSafe z
  | .arrayAngle t => !printsNothing t && dtSafe row t
  | .arraySquare t _ | .arrayParen t | .nullable t | .lowCardinality t => dtSafe row t
  | .map k v => dtSafe row k && dtSafe row v
  | .struct fs b => !emptyAngle (.struct fs b) && fieldsSafe row fs
  | .tuple fs | .nested fs | .union fs => fieldsSafe row fs
  | _ => true
partial def fieldsSafe (row : SqlVerif.Gen.DialectRow) : Fields → Bool
  | .nil => true
  | .cons n t r => (match n with | none => true | some i => identSafe row i) && dtSafe row t && fieldsSafe row r
end

mutual
partial def modsOf : DT → List (List Nat)
  | .custom _ ms => ms
  | .arrayAngle t | .arraySquare t _ | .arrayParen t | .nullable t | .lowCardinality t => modsOf t
  | .map k v => modsOf k ++ modsOf v
  | .tuple fs | .nested fs | .union fs | .struct fs _ => modsOfF fs
  | _ => []
partial def modsOfF : Fields → List (List Nat)
  | .nil => []
  | .cons _ t r => modsOf t ++ modsOfF r
end

def handlePrint (args : List String) : String :=
  match args with
  | [d, sx, mm] =>
    match rowOf d with
    | none => "bad-dialect"
    | some row =>
      match readS (lexS sx) with
      | some (s, []) =>
        match dtOf s with
        | none => "UNSUPPORTED"
        | some t =>
          if !dtSafe row t then "UNSUPPORTED" else
          let mods := parseModMap mm
          let env : Env := {
            kwOf := fun v => classOf (kwIndexOf v),
            lexMod := fun m => match mods.find? (·.1 == m) with | some (_, some r) => r | _ => [] }
          -- a raw modifier that does not lex on its own is outside the model
          if (modsOf t).any (fun m => match mods.find? (·.1 == m) with | some (_, some _) => false | _ => true) then "UNSUPPORTED" else
          match (printDT (cfgOfRow row) env (row.asciiCustomOp.getD 62 false) t).mapM encTok with
          | some l => "TOKS " ++ (if l.isEmpty then "-" else ";".intercalate l)
          | none => "KWMISMATCH"
      | _ => "bad-sexp"
  | _ => "bad-request"

end Driver.DTyD

import Driver.Proto
import SqlVerif.Model.ListsSql
import SqlVerif.Gen.Keywords
namespace Driver
open SqlVerif.Lists

def decodeSTok (s : String) : Option (Option STok) :=
  if s == "," then some (some .comma)
  else if s == ")" then some (some .rparen)
  else if s == ";" then some (some .semi)
  else if s == "]" then some (some .rbracket)
  else if s == "}" then some (some .rbrace)
  else if s == "(" then some (some .lparen)
  else if s == "n" then some (some .number)
  else if s == "s" then some none          -- whitespace: skipped by the cursor
  else match s.splitOn ":" with
    | ["w", h] => some (some (.word (decodeCps h) none))
    | ["k", i] => match i.toNat? with
      | some k => some (some (.word (SqlVerif.Gen.keywordsList.getD k []) (some k)))
      | none => none
    | _ => none

/-- `lists <cs|cs0> <tc> <codes>` -/
def handleLists (args : List String) : String :=
  match args with
  | [op, tc, codes] =>
    let tcb := tc == "1"
    let raw := if codes == "-" then [] else codes.splitOn " "
    let toks := raw.filterMap fun c => match decodeSTok c with | some (some t) => some t | _ => none
    let fuel := toks.length + 1
    let r := if op == "cs" then commaSep sqlClass tcb parseIdent fuel toks
             else commaSep0 sqlClass tcb parseIdent .rparen fuel toks
    let tcs := if tcb then "1" else "0"
    match r with
    | some (vs, rest) =>
      let v := if vs.isEmpty then "-" else ".".intercalate (vs.map encodeCps)
      s!"OK {v} REST {rest.length} TC {tcs}"
    | none => s!"ERR TC {tcs}"
  | _ => "bad-request"

end Driver

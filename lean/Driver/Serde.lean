import Driver.Reflect
import SqlVerif.Gen.Schema
/-! Stream `serde`: `serde \t <S|T> \t <reflected value>` (S = one `Statement`, T = `Vec<Token>`).
Answer: `OK <canonical JSON of the model's ser> WT<well-typed> RT<model round trip gives the value back>`.
Canonical JSON text (the harness prints `serde_json::to_value` of the real value the same way):
`n` null, `t`/`f`, `#<decimal>`, strings as `"<hex code points joined by .>"`, `[a,b]`,
`{key:value,...}` with keys as plain identifiers sorted by code point. -/
namespace Driver
open SqlVerif SqlVerif.Serde

def nameOf (id : Nat) : String := Gen.Schema.names.getD id s!"?{id}"

def hexDots (l : List Nat) : String := ".".intercalate (l.map hexOf)

def insertSorted (kv : String × String) : List (String × String) → List (String × String)
  | [] => [kv]
  | x :: r => if kv.1 < x.1 then kv :: x :: r else x :: insertSorted kv r

partial def renderJson : Json → String
  | .null => "n"
  | .bool b => if b then "t" else "f"
  | .num i => "#" ++ toString i
  | .str s => "\"" ++ hexDots s ++ "\""
  | .tag id => "\"" ++ hexDots ((nameOf id).toList.map Char.toNat) ++ "\""
  | .arr xs => "[" ++ ",".intercalate (xs.map renderJson) ++ "]"
  | .obj kvs =>
    let rendered := kvs.map fun (k, j) => (nameOf k, renderJson j)
    let sorted := rendered.foldl (fun acc kv => insertSorted kv acc) []
    "{" ++ ",".intercalate (sorted.map fun (k, v) => k ++ ":" ++ v) ++ "}"

def handleSerde (args : List String) : String :=
  match args with
  | [root, tree] =>
    let τ : Schema.Ty := if root == "T" then .vec (.named Gen.Schema.tokenId) else .named Gen.Schema.statementId
    match Reflect.decodeAll Gen.Schema.schema τ tree with
    | .error e => Reflect.errLine e
    | .ok v =>
      let j := ser Gen.Schema.schema τ v
      let wtb := wt Gen.Schema.schema τ v
      let rt := match de Gen.Schema.schema (size v + 1) τ j with
        | some v' => SqlVerif.Reflect.beq v' v
        | none => false
      s!"OK {renderJson j} WT{if wtb then 1 else 0} RT{if rt then 1 else 0}"
  | _ => "bad-request"

end Driver

import Driver.Proto
import SqlVerif.Model.CursorState
/-! Stream `cursorstate`: the model programs of `parse_projection`, `parse_expr`,
`parse_connect_by`, `parse_query` (flag idioms) run by `CursorState.runS`.

`cursorstate <scenario> <tokens> <trailing 0|1> <depth> <v 0|1>` →
`<ok:n|ok|err|rle|PANIC|UNSUPPORTED> <index> <state normal> <trailing> <depth>` -/
namespace Driver
open SqlVerif.Cursor SqlVerif.CursorState SqlVerif.CursorState.Real

def decodeFTok (c : String) : FTok :=
  if c == "w" then .ws
  else if c == "i" || c == "q" then .word 0 false
  else if c == "," then .comma
  else if c == "(" then .lparen
  else if c == ")" then .rparen
  else if c == ";" then .semi
  else if c.front == 'k' then
    let body := (c.drop 1).toString
    let resv := body.back == 'r'
    .word ((body.dropEnd 1).toString.toNat?.getD 0) resv
  else .semi

def decodeFToks (s : String) : List (TL FTok) :=
  let codes := if s == "-" then [] else s.splitOn " "
  codes.zipIdx.map fun (c, i) => ⟨decodeFTok c, ⟨1, i + 1⟩⟩

def b01 (b : Bool) : String := if b then "1" else "0"

def showFlags (pos : Nat) (f : Flags) : String :=
  s!"{pos} {b01 f.stateNormal} {b01 f.trailingCommas} {f.depth}"

def showResS (withCount : Bool) : ResS Nat → String
  | .ok a pos f => (if withCount then s!"ok:{a}" else "ok") ++ " " ++ showFlags pos f
  | .err 98 _ _ _ => "UNSUPPORTED"
  | .err 99 _ _ _ => "UNSUPPORTED fuel"
  | .err _ _ pos f => "err " ++ showFlags pos f
  | .limit pos f => "rle " ++ showFlags pos f
  | .panic => "PANIC"

def handleCursorState (args : List String) : String :=
  match args with
  | [scen, toks, tc, depth, v] =>
    let T := decodeFToks toks
    let fuel := T.length + 2
    let f : Flags := ⟨true, tc == "1", depth.toNat?.getD 0⟩
    let go (p : P) (cnt : Bool) := showResS cnt (runS FTok.isWs p ⟨T, 0⟩ f)
    if scen == "proj" then go (projection (v == "1") fuel) true
    else if scen == "expr" then go (exprTop fuel) false
    else if scen == "cby" then go (connectBy fuel .ret) true
    else if scen == "query" then go (queryCB fuel) true
    else "bad-scenario"
  | _ => "bad-request"

end Driver

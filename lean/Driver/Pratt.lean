import Driver.Proto
import SqlVerif.Model.Pratt
import SqlVerif.Gen.Dialects
import SqlVerif.Model.SetClimb
/-! Streams `prec` and `chains` (property C04): decode the canonical token rendering of
`rust/harness/src/canon.rs`, run the Pratt model, print the answer line. -/
namespace Driver.Pr
open SqlVerif.Pratt Driver

def decodeTok (s : String) : Tok :=
  match s.splitOn ":" with
  | ["Word", v, q, k] =>
    .word (decodeCps v) (match decodeCps q with | [c] => some c | _ => none) (if k == "none" then none else k.toNat?)
  | ["Number", v, l] => .number (decodeCps v) (l == "1")
  | ["SingleQuotedString", v] => .sqs (decodeCps v)
  | ["DoubleQuotedString", v] => .dqs (decodeCps v)
  | ["Placeholder", v] => .placeholder (decodeCps v)
  | ["CustomBinaryOperator", v] => .customOp (decodeCps v)
  | [n] => match Sym.ofName n with | some x => .sym x | none => .other n ""
  | n :: rest => .other n (":".intercalate rest)
  | [] => .other "" ""

def decodeToks (s : String) : List Tok :=
  if s.isEmpty then [] else (s.splitOn ";").map decodeTok

def cfgs : List (String × Cfg) := SqlVerif.Gen.dialects.map fun r => (r.name, Cfg.ofRow r)

def cfgOf (name : String) : Option Cfg := (cfgs.find? fun p => p.1 == name).map (·.2)

/-- `prec <dialect> <tokens>` → the number -/
def handlePrec (args : List String) : String :=
  match args with
  | [d, toks] =>
    match cfgOf d with
    | some c => toString (nextPrec c (decodeToks toks))
    | none => "bad-dialect"
  | _ => "bad-request"

def errLine : Err → String
  | .rle => "ERR:rle"
  | .syntax m => "ERR:syntax:" ++ encodeCps m
  | .unsupported => "UNSUPPORTED"
  | .fuel => "FUEL"

/-- `chains <dialect> <limit> <tokens>` → `OK <sexp> REST <n>` | `ERR:…` | `UNSUPPORTED` -/
def handleChains (args : List String) : String :=
  match args with
  | [d, lim, toks] =>
    match cfgOf d, lim.toNat? with
    | some c, some l =>
      let ts := decodeToks toks
      match parseExpr c (4 * ts.length + 4 * l + 64) l ts with
      | .ok (e, rest) => "OK " ++ e.sexp ++ " REST " ++ toString rest.length
      | .error er => errLine er
    | _, _ => "bad-dialect"
  | _ => "bad-request"

-- ------------------------------------------------------------------ stream `setops`
open SqlVerif.SetClimb in
def oneSTok (t : Tok) : STok :=
  if t.isKw (kwIndex "UNION") then .op .union
  else if t.isKw (kwIndex "EXCEPT") then .op .except
  else if t.isKw (kwIndex "INTERSECT") then .op .intersect
  else if t.isKw KW.ALL then .all
  else if t.isKw KW.DISTINCT then .distinct
  else if t.isKw (kwIndex "BY") then .by_
  else if t.isKw (kwIndex "NAME") then .name
  else if t.isSym .LParen then .lparen
  else if t.isSym .RParen then .rparen
  else .other

open SqlVerif.SetClimb in
/-- real tokens → the alphabet of `Model/SetClimb.lean` (`SELECT n` becomes one `sel n`) -/
def toSTok : List Tok → List STok
  | [] => []
  | [t] => [oneSTok t]
  | t :: t2 :: rest =>
    if t.isKw (kwIndex "SELECT") then
      match t2 with
      | .number s false =>
        match (String.ofList (s.map Char.ofNat)).toNat? with
        | some n => .sel n :: toSTok rest
        | none => .other :: toSTok (t2 :: rest)
      | _ => .other :: toSTok (t2 :: rest)
    else oneSTok t :: toSTok (t2 :: rest)

open SqlVerif.SetClimb in
def stokDisplay : Option STok → String
  | none => "EOF"
  | some (.sel _) => "SELECT"
  | some (.op .union) => "UNION"
  | some (.op .except) => "EXCEPT"
  | some (.op .intersect) => "INTERSECT"
  | some .all => "ALL" | some .distinct => "DISTINCT" | some .by_ => "BY" | some .name => "NAME"
  | some .lparen => "(" | some .rparen => ")" | some .other => "?"

open SqlVerif.SetClimb in
def stokLen : List STok → Nat
  | [] => 0
  | .sel _ :: r => 2 + stokLen r
  | _ :: r => 1 + stokLen r

open SqlVerif.SetClimb in
def setSexp : SetExpr → String
  | .sel n => s!"(sel {n})"
  | .query e => "(query " ++ setSexp e ++ ")"
  | .setOp l o q _ r =>
    let on := match o with | .union => "union" | .except => "except" | .intersect => "intersect"
    let qn := match q with
      | .all => "all" | .distinct => "distinct" | .byName => "byName" | .allByName => "allByName"
      | .distinctByName => "distinctByName" | .none => "none"
    "(setop " ++ on ++ " " ++ qn ++ " " ++ setSexp l ++ " " ++ setSexp r ++ ")"

open SqlVerif.SetClimb in
/-- `setops <dialect> <limit> <tokens>`; the dialect plays no role in this part of the parser -/
def handleSetops (args : List String) : String :=
  match args with
  | [_, lim, toks] =>
    match lim.toNat? with
    | some l =>
      let ts := toSTok (decodeToks toks)
      match parseQuery (4 * ts.length + 16) l ts with
      | .ok (e, rest) => "OK " ++ setSexp e ++ " REST " ++ toString (stokLen rest)
      | .error .rle => "ERR:rle"
      | .error (.expected what found) =>
        "ERR:syntax:" ++ encodeCps (str ("Expected: " ++ what ++ ", found: " ++ stokDisplay found))
      | .error .unsupported => "UNSUPPORTED"
      | .error .fuel => "FUEL"
    | none => "bad-request"
  | _ => "bad-request"

end Driver.Pr

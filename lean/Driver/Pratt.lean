import Driver.Proto
import SqlVerif.Model.Pratt
import SqlVerif.Gen.Dialects
/-! Streams `prec` and `chains` (property C04): decode the canonical token rendering of
`rust/harness/src/canon.rs`, run the Pratt model, print the answer line. -/
namespace Driver.Pr
open SqlVerif.Pratt Driver

def decodeTok (s : String) : Tok :=
  match s.splitOn ":" with
  | ["Word", v, q, k] =>
    .word (decodeCps v) (match decodeCps q with | [c] => some c | _ => none) (if k == "none" then none else k.toNat?)
  | ["Number", v, l] => .number (decodeCps v) (l == "1")
  | ["SingleQuotedString", v] => .sqs (decodeCps v)
  | ["DoubleQuotedString", v] => .dqs (decodeCps v)
  | ["Placeholder", v] => .placeholder (decodeCps v)
  | ["CustomBinaryOperator", v] => .customOp (decodeCps v)
  | [n] => match Sym.ofName n with | some x => .sym x | none => .other n ""
  | n :: rest => .other n (":".intercalate rest)
  | [] => .other "" ""

def decodeToks (s : String) : List Tok :=
  if s.isEmpty then [] else (s.splitOn ";").map decodeTok

def cfgs : List (String × Cfg) := SqlVerif.Gen.dialects.map fun r => (r.name, Cfg.ofRow r)

def cfgOf (name : String) : Option Cfg := (cfgs.find? fun p => p.1 == name).map (·.2)

/-- `prec <dialect> <tokens>` → the number -/
def handlePrec (args : List String) : String :=
  match args with
  | [d, toks] =>
    match cfgOf d with
    | some c => toString (nextPrec c (decodeToks toks))
    | none => "bad-dialect"
  | _ => "bad-request"

def errLine : Err → String
  | .rle => "ERR:rle"
  | .syntax m => "ERR:syntax:" ++ encodeCps m
  | .unsupported => "UNSUPPORTED"
  | .fuel => "FUEL"

/-- `chains <dialect> <limit> <tokens>` → `OK <sexp> REST <n>` | `ERR:…` | `UNSUPPORTED` -/
def handleChains (args : List String) : String :=
  match args with
  | [d, lim, toks] =>
    match cfgOf d, lim.toNat? with
    | some c, some l =>
      let ts := decodeToks toks
      match parseExpr c (4 * ts.length + 4 * l + 64) l ts with
      | .ok (e, rest) => "OK " ++ e.sexp ++ " REST " ++ toString rest.length
      | .error er => errLine er
    | _, _ => "bad-dialect"
  | _ => "bad-request"

end Driver.Pr

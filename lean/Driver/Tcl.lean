import Driver.Proto
import Driver.Pratt
import Driver.Query
import SqlVerif.Model.TclPrint
/-! Stream `tcl` (properties C05 / C11 / C13 on the statement fragment of `Model/Tcl.lean`: START TRANSACTION /
BEGIN / COMMIT / END / ROLLBACK / SAVEPOINT / RELEASE, SET …, USE, DISCARD, DEALLOCATE, CLOSE, ASSERT, and
through it the fragments of `Model/Ddl.lean` and `Model/Dml.lean`):
`tcl <dialect> <trailing_commas 0|1> <limit> <tokens>` → `OK <sexp>;<sexp>… TEXT <hex text>` |
`ERR:rle` | `ERR:syntax` | `UNSUPPORTED`. -/
namespace Driver.Tc
open SqlVerif.Pratt SqlVerif.Query SqlVerif.Tcl Driver

def tcfgs : List (String × TCfg) := SqlVerif.Gen.dialects.map fun r => (r.name, TCfg.ofRow r)

def tcfgOf (name : String) : Option TCfg := (tcfgs.find? fun p => p.1 == name).map (·.2)

def handleTcl (args : List String) : String :=
  match args with
  | [d, tc, lim, toks] =>
    match tcfgOf d, lim.toNat? with
    | some c0, some l =>
      let c := c0.withTrailing (tc == "1")
      let ts := Pr.decodeToks toks
      match parseScript c (32 * ts.length + 8 * l + 256) l ts with
      | .ok ss =>
        match Qr.joinTexts (ss.map Stmt.showText) with
        | some t => "OK " ++ ";".intercalate (ss.map Stmt.sexp) ++ " TEXT " ++ encodeCps t
        | none => "UNSUPPORTED"
      | .error (.stmt e) => Qr.errClass e
      | .error .expectedEnd => "ERR:syntax"
      | .error .fuel => "FUEL"
    | _, _ => "bad-dialect"
  | _ => "bad-request"

end Driver.Tc

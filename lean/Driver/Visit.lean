import Driver.Reflect
import SqlVerif.Gen.Schema
/-! Stream `visit`: `visit \t <break specs, comma separated: - or k> \t <reflected statement>`.
Answer: per break spec `<C|B><n callbacks>:<events>/<mutating walk>` joined by `|`; events are
`<hook id>+` (pre) / `<hook id>-` (post); the mutating part is `=` when the identity-callback
`VisitMut` walk gives the same result, the same events and an equal tree. -/
namespace Driver
open SqlVerif

def renderEvents (es : List Visit.Ev) : String :=
  String.join (es.map fun e => toString e.pos.hook ++ (if e.post then "-" else "+"))

def renderRun (r : Bool × Visit.St) : String :=
  (if r.1 then "B" else "C") ++ toString r.2.n ++ ":" ++ renderEvents r.2.tr

def visitOne (v : Visit.Val) (spec : String) : String :=
  let brk : Nat → Bool := match spec.toNat? with
    | some k => fun i => i == k
    | none => Visit.never
  let r := Visit.run brk v
  let m := match Visit.runM Visit.cbId brk v with
    | none => "FUEL"
    | some (b, v', s) =>
      let same := (b == r.1) && (s.n == r.2.n) && (renderEvents s.tr == renderEvents r.2.tr) && Visit.beq v' v
      if same then "=" else renderRun (b, s) ++ (if Visit.beq v' v then "" else "/tree-changed")
  renderRun r ++ "/" ++ m

def handleVisit (args : List String) : String :=
  match args with
  | [specs, tree] =>
    match Reflect.decodeAll Gen.Schema.schema (.named Gen.Schema.statementId) tree with
    | .error e => Reflect.errLine e
    | .ok tv =>
      let v := SqlVerif.Reflect.toVisit Gen.Schema.schema (.named Gen.Schema.statementId) tv
      "|".intercalate ((specs.splitOn ",").map (visitOne v))
  | _ => "bad-request"

end Driver

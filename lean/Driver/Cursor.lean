import Driver.Proto
import SqlVerif.Model.Cursor
namespace Driver
open SqlVerif.Cursor

/-- tokens: `w` whitespace (id 0), `t<id>` other; location (1, position+1) -/
def decodeCursorToks (s : String) : List (TL Nat) :=
  let codes := if s == "-" then [] else s.splitOn " "
  codes.zipIdx.map fun (c, i) =>
    let id := if c == "w" then 0 else ((c.drop 1).toString.toNat?.getD 1)
    ⟨id, ⟨1, i + 1⟩⟩

def showTL : Option (TL Nat) → String
  | none => "EOF@0:0"
  | some t => s!"{t.tok}@{t.loc.line}:{t.loc.col}"

def cursorIsWs (t : Nat) : Bool := t == 0

/-- run the op list, one answer fragment per op -/
def runCursorOps : List String → CState Nat → List String → List String
  | [], _, acc => acc.reverse
  | op :: rest, s, acc =>
    let arg := (op.drop 1).toString
    let c := op.front
    if c == 'P' then
      runCursorOps rest s (s!"{showTL (peekNth cursorIsWs s (arg.toNat?.getD 0))}/{s.index}" :: acc)
    else if c == 'N' then
      let r := next cursorIsWs s
      runCursorOps rest r.2 (s!"{showTL r.1}/{r.2.index}" :: acc)
    else if c == 'B' then
      match prev cursorIsWs s with
      | none => (("PANIC" :: acc).reverse)
      | some s' => runCursorOps rest s' (s!"ok/{s'.index}" :: acc)
    else if c == 'Q' then
      runCursorOps rest s (s!"{showTL (peekNthNoSkip s (arg.toNat?.getD 0))}/{s.index}" :: acc)
    else if c == 'M' then
      let r := nextNoSkip s
      runCursorOps rest r.2 (s!"{showTL r.1}/{r.2.index}" :: acc)
    else if c == 'C' then
      let ids := (arg.splitOn ",").filterMap (·.toNat?)
      let r := consumeTokens cursorIsWs s ids
      runCursorOps rest r.2 (s!"{r.1}/{r.2.index}" :: acc)
    else (("bad-op" :: acc).reverse)

def handleCursor (args : List String) : String :=
  match args with
  | [toks, ops] =>
    let T := decodeCursorToks toks
    let opl := if ops == "-" then [] else ops.splitOn " "
    " ".intercalate (runCursorOps opl ⟨T, 0⟩ [])
  | _ => "bad-request"

end Driver

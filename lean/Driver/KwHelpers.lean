import Driver.Proto
import SqlVerif.Model.CursorKw
/-! Stream `kwhelpers`: the keyword-testing helper programs of `Model/CursorKw.lean` run by
`Cursor.runC`, one op after the other on one cursor.

`kwhelpers <tokens canon, ';'-separated> <ops, '|'-separated>` → one `<result>/<index>` per op. -/
namespace Driver
open SqlVerif.Cursor SqlVerif.CursorKw

def otherId (name : String) : Nat :=
  if name == "Comma" then 1 else if name == "LParen" then 2 else if name == "RParen" then 3
  else if name == "SemiColon" then 4 else if name == "Period" then 5 else if name.startsWith "Number" then 6
  else 99

def kwField (s : String) : Option Nat := s.toNat?

/-- canonical token → `KTok`; `none` = EOF -/
def decodeKTok (c : String) : Option KTok :=
  match c.splitOn ":" with
  | ["Word", v, q, kw] => some (.word (decodeCps v) (if q == "-" then none else parseHex q) (kwField kw))
  | "WS" :: _ => some .ws
  | ["EOF"] => none
  | _ => some (.other (otherId c))

def decodeKToks (s : String) : List (TL KTok) :=
  let cs := if s == "-" then [] else s.splitOn ";"
  cs.zipIdx.filterMap fun (c, i) => (decodeKTok c).map fun t => ⟨t, ⟨1, i + 1⟩⟩

def kwList (s : String) : List (Option Nat) :=
  if s.isEmpty then [] else (s.splitOn ",").map kwField

def showKw : Option Nat → String
  | some i => toString i
  | none => "none"

def showKTokCanon : Option KTok → String
  | none => "EOF"
  | some .ws => "WS:Space"
  | some (.word v q kw) =>
    let qs := match q with | some c => hexOf c | none => "-"
    s!"Word:{(encodeCps v).replace " " "."}:{qs}:{showKw kw}"
  | some (.other n) =>
    if n == 1 then "Comma" else if n == 2 then "LParen" else if n == 3 then "RParen"
    else if n == 4 then "SemiColon" else if n == 5 then "Period" else if n == 6 then "Number:31:0" else "?"

/-- result of one helper program started at index `i` -/
def runK {α : Type} (T : List (TL KTok)) (i : Nat) (p : Prog KTok α) : Res α :=
  runC KTok.isWs p ⟨T, i⟩ (fun _ => 0) []

def showBoolRes : Res Bool → String × Option Nat
  | .ok b j => (toString b, some j)
  | .err _ l => (s!"err@{l.line}:{l.col}", none)
  | .panic => ("PANIC", none)

def runKwOps (T : List (TL KTok)) : List String → Nat → List String → List String
  | [], _, acc => acc.reverse
  | op :: rest, i, acc =>
    let arg := (op.drop 1).toString
    let c := op.front
    -- every helper below leaves the index in the `ok` result; the expect_* errors keep the index
    -- where `parse_keyword` left it (nothing consumed by the failing test)
    let fin (s : String) (j : Nat) := runKwOps T rest j (s!"{s}/{j}" :: acc)
    if c == 'K' then
      match runK T i (parseKeyword (kwField arg) fun b => .ret b) with
      | .ok b j => fin (toString b) j
      | _ => ("PANIC" :: acc).reverse
    else if c == 'S' then
      match runK T i (parseKeywords 0 (kwList arg) fun b => .ret b) with
      | .ok b j => fin (toString b) j
      | _ => ("PANIC" :: acc).reverse
    else if c == 'O' then
      match runK T i (parseOneOfKeywords (kwList arg) fun r => .ret r) with
      | .ok (some k) j => fin (showKw k) j
      | .ok none j => fin "nomatch" j
      | _ => ("PANIC" :: acc).reverse
    else if c == 'E' || c == 'X' then
      let Ks := if c == 'E' then [kwField arg] else kwList arg
      -- the index after a failed expect_keywords is the index reached by the keywords that matched:
      -- run the matching prefix as `parse_keyword`s to obtain it
      let rec reach (Ks : List (Option Nat)) (j : Nat) : Nat :=
        match Ks with
        | [] => j
        | K :: more =>
          match runK T j (parseKeyword K fun b => .ret b) with
          | .ok true j' => reach more j'
          | _ => j
      match runK T i (expectKeywords 0 Ks (.ret ())) with
      | .ok _ j => fin "ok" j
      | .err _ l => fin s!"err@{l.line}:{l.col}" (reach Ks i)
      | .panic => ("PANIC" :: acc).reverse
    else if c == 'P' then
      match arg.splitOn "," with
      | [n, k] =>
        match runK T i (peekKeyword (n.toNat?.getD 0) (kwField k) fun b => .ret b) with
        | .ok b j => fin (toString b) j
        | _ => ("PANIC" :: acc).reverse
      | _ => ("bad-op" :: acc).reverse
    else if c == 'C' then
      match runK T i (consumeTok (decodeKTok arg) fun b => .ret b) with
      | .ok b j => fin (toString b) j
      | _ => ("PANIC" :: acc).reverse
    else if c == 'N' then
      let r := next KTok.isWs ⟨T, i⟩
      fin (showKTokCanon (r.1.map (·.tok))) r.2.index
    else ("bad-op" :: acc).reverse

def handleKwHelpers (args : List String) : String :=
  match args with
  | [toks, ops] =>
    let T := decodeKToks toks
    let opl := if ops == "-" then [] else ops.splitOn "|"
    " ".intercalate (runKwOps T opl 0 [])
  | _ => "bad-request"

end Driver

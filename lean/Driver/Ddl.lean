import Driver.Proto
import Driver.Pratt
import Driver.Query
import SqlVerif.Model.DdlPrint
/-! Stream `ddl` (properties C05 / C11 / C13 on the statement fragment of `Model/Ddl.lean`: CREATE VIEW,
CREATE INDEX, ALTER TABLE, TRUNCATE, DROP <kind>, and through it the fragment of `Model/Dml.lean`):
`ddl <dialect> <trailing_commas 0|1> <limit> <tokens>` → `OK <sexp>;<sexp>… TEXT <hex text>` |
`ERR:rle` | `ERR:syntax` | `UNSUPPORTED`. -/
namespace Driver.Dd
open SqlVerif.Pratt SqlVerif.Query SqlVerif.Ddl Driver

def xcfgs : List (String × XCfg) := SqlVerif.Gen.dialects.map fun r => (r.name, XCfg.ofRow r)

def xcfgOf (name : String) : Option XCfg := (xcfgs.find? fun p => p.1 == name).map (·.2)

def handleDdl (args : List String) : String :=
  match args with
  | [d, tc, lim, toks] =>
    match xcfgOf d, lim.toNat? with
    | some c0, some l =>
      let c := c0.withTrailing (tc == "1")
      let ts := Pr.decodeToks toks
      match parseScript c (32 * ts.length + 8 * l + 256) l ts with
      | .ok ss =>
        match Qr.joinTexts (ss.map Stmt.showText) with
        | some t => "OK " ++ ";".intercalate (ss.map Stmt.sexp) ++ " TEXT " ++ encodeCps t
        | none => "UNSUPPORTED"
      | .error (.stmt e) => Qr.errClass e
      | .error .expectedEnd => "ERR:syntax"
      | .error .fuel => "FUEL"
    | _, _ => "bad-dialect"
  | _ => "bad-request"

end Driver.Dd

/-! Line protocol helpers: strings travel as space-separated hex code points, `-` = empty. -/
namespace Driver

def hexDigit? (c : Char) : Option Nat :=
  if '0' ≤ c ∧ c ≤ '9' then some (c.toNat - '0'.toNat)
  else if 'a' ≤ c ∧ c ≤ 'f' then some (c.toNat - 'a'.toNat + 10)
  else if 'A' ≤ c ∧ c ≤ 'F' then some (c.toNat - 'A'.toNat + 10)
  else none

def parseHex (s : String) : Option Nat :=
  if s.isEmpty then none else
  s.foldl (fun acc c => match acc, hexDigit? c with
    | some a, some d => some (a * 16 + d)
    | _, _ => none) (some 0)

/-- decode a hex field (`-` = empty) into code points -/
def decodeCps (s : String) : List Nat :=
  if s == "-" then [] else (s.splitOn " ").filterMap parseHex

def hexOf (n : Nat) : String := String.ofList (Nat.toDigits 16 n)

def encodeCps (l : List Nat) : String :=
  if l.isEmpty then "-" else " ".intercalate (l.map hexOf)

def cpsToString (l : List Nat) : String := String.ofList (l.map Char.ofNat)

end Driver

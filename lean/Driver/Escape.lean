import Driver.Proto
import SqlVerif.Model.Escape
/-! Stream `lits`, print half: the model of `Display` for one literal / identifier.
Request `print \t kind \t hex payload \t extra`:
* kind = a string variant of `Value` (`SingleQuotedString`, …), extra = `-`;
* kind = `Dollar`, extra = `N` (no tag) or `T<hex tag>`;
* kind = `Ident` / `Word`, extra = quote character as hex code point, `-` for none.
Answer `OK <hex text>` or `PANIC` (the `panic!` arms of `Display for Ident` / `Word`).
The tokenize half of the stream uses op `tok`. -/
namespace Driver
open SqlVerif.Escape SqlVerif.Keywords

def kindOfName : String → Option Kind
  | "SingleQuotedString" => some .singleQuoted
  | "DoubleQuotedString" => some .doubleQuoted
  | "TripleSingleQuotedString" => some .tripleSingle
  | "TripleDoubleQuotedString" => some .tripleDouble
  | "EscapedStringLiteral" => some .escaped
  | "UnicodeStringLiteral" => some .unicode
  | "SingleQuotedByteStringLiteral" => some .byteSingle
  | "DoubleQuotedByteStringLiteral" => some .byteDouble
  | "TripleSingleQuotedByteStringLiteral" => some .byteTripleSingle
  | "TripleDoubleQuotedByteStringLiteral" => some .byteTripleDouble
  | "SingleQuotedRawStringLiteral" => some .rawSingle
  | "DoubleQuotedRawStringLiteral" => some .rawDouble
  | "TripleSingleQuotedRawStringLiteral" => some .rawTripleSingle
  | "TripleDoubleQuotedRawStringLiteral" => some .rawTripleDouble
  | "NationalStringLiteral" => some .national
  | "HexStringLiteral" => some .hex
  | _ => none

def okText : Option (List Nat) → String
  | some t => "OK " ++ encodeCps t
  | none => "PANIC"

def parseQuote (s : String) : Option (Option Nat) :=
  if s == "-" then some none else (parseHex s).map some

def handlePrint (args : List String) : String :=
  match args with
  | [kind, payload, extra] =>
    let p := decodeCps payload
    if kind == "Dollar" then
      if extra == "N" then okText (some (showDollar p none))
      else if extra.startsWith "T" then okText (some (showDollar p (some (decodeCps (extra.drop 1).toString))))
      else "bad-request"
    else if kind == "Ident" then
      match parseQuote extra with
      | some q => okText (showIdent ⟨p, q⟩)
      | none => "bad-request"
    else if kind == "Word" then
      match parseQuote extra with
      | some q => okText (Word.display ⟨p, q, none⟩)
      | none => "bad-request"
    else match kindOfName kind with
      | some k => okText (some (showValue k p))
      | none => "bad-kind"
  | _ => "bad-request"

end Driver

import Driver.Proto
import SqlVerif.Model.StmtsSql
namespace Driver
open SqlVerif.Stmts

/-- codes: `S` SELECT, `n<k>` number, `;`, `E` END, `)` other, `w` whitespace (dropped) -/
def decodeStmtTok (s : String) : Option STok :=
  if s == "S" then some .select
  else if s == ";" then some .semi
  else if s == "E" then some .endKw
  else if s == ")" then some .other
  else if s.startsWith "n" then some (.num ((s.drop 1).toString.toNat?.getD 0))
  else none

def handleStmts (args : List String) : String :=
  match args with
  | [codes] =>
    let raw := if codes == "-" then [] else codes.splitOn " "
    let toks := raw.filterMap decodeStmtTok
    match parseStatements sqlClass parseSelect toks with
    | .ok vs => "OK " ++ (if vs.isEmpty then "-" else " ".intercalate vs)
    | .error .expectedEnd => "ERR end"
    | .error (.stmt _) => "ERR stmt"
    | .error .fuel => "ERR fuel"
  | _ => "bad-request"

end Driver

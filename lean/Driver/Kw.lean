import Driver.Proto
import SqlVerif.Model.Keywords
import SqlVerif.Gen.Keywords
namespace Driver
open SqlVerif.Keywords

/-- `kw <word> <upper(word)> <quote|->` → `<index|none> <display|PANIC>` -/
def handleKw (args : List String) : String :=
  match args with
  | [w, u, q] =>
    let word := decodeCps w
    let up := decodeCps u
    let quote := match decodeCps q with | [c] => some c | _ => none
    let r := makeWord SqlVerif.Gen.keywords (fun _ => up) word quote
    let k := match r.keyword with | some i => toString i | none => "none"
    let d := match r.display with | some t => encodeCps t | none => "PANIC"
    s!"{k}\t{d}"
  | _ => "bad-request"

end Driver

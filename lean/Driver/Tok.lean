import Driver.Proto
import SqlVerif.Model.Tokenizer
/-! Stream `tok`: the tokenizer model on one text.
Request `tok \t dialect \t unescape(0|1) \t hex text \t char table`; the char table is
`cp=bits=upper` entries joined by `,` (`-` when empty): `cp` hex code point, `bits` decimal mask
(1 is_whitespace, 2 is_alphabetic, 4 is_numeric, 8 is_alphanumeric, 16 is_identifier_start,
32 is_identifier_part, 64 is_delimited_identifier_start, 128 is_custom_operator_part), `upper` =
hex code points of `char::to_uppercase` joined by `.`.
Answer `OK <tokens@line:col;…>` or `ERR:lex:<hex message>@line:col` (rendering of canon.rs). -/
namespace Driver
open SqlVerif.Tok SqlVerif.Keywords

structure CharInfo where
  cp : Nat
  bits : Nat
  upper : List Nat

def parseCharEntry (s : String) : Option CharInfo :=
  match s.splitOn "=" with
  | [c, b, u] =>
    match parseHex c, b.toNat? with
    | some cp, some bits => some ⟨cp, bits, (u.splitOn ".").filterMap parseHex⟩
    | _, _ => none
  | _ => none

def parseCharTable (s : String) : List CharInfo :=
  if s == "-" || s.isEmpty then [] else (s.splitOn ",").filterMap parseCharEntry

def lookupChar (t : List CharInfo) (c : Nat) : Option CharInfo := t.find? (·.cp == c)

def charBit (t : List CharInfo) (k : Nat) (c : Nat) : Bool :=
  match lookupChar t c with
  | some i => (i.bits / 2 ^ k) % 2 == 1
  | none => false

def mkEnv (row : SqlVerif.Gen.DialectRow) (unescape : Bool) (t : List CharInfo) : Env :=
  { row := row, unescape := unescape,
    isWhitespace := charBit t 0, isAlphabetic := charBit t 1, isNumeric := charBit t 2,
    isAlphanumeric := charBit t 3,
    toUpper := fun c => match lookupChar t c with | some i => i.upper | none => [c],
    isIdentStart := charBit t 4, isIdentPart := charBit t 5, isDelimStart := charBit t 6,
    isCustomOpPart := charBit t 7 }

def wsCanon : Whitespace → String
  | .space => "WS:Space"
  | .newline => "WS:Newline"
  | .tab => "WS:Tab"
  | .singleLineComment c p => s!"WS:SLC:{encodeCps p}:{encodeCps c}"
  | .multiLineComment s => s!"WS:MLC:{encodeCps s}"

/-- `canon::tok_canon` -/
def tokCanon : Token → String
  | .eof => "EOF"
  | .word w =>
    let q := match w.quote with | some c => hexOf c | none => "-"
    let k := match w.keyword with | some i => toString i | none => "none"
    s!"Word:{encodeCps w.value}:{q}:{k}"
  | .number s l => s!"Number:{encodeCps s}:{if l then 1 else 0}"
  | .char c => s!"Char:{hexOf c}"
  | .singleQuotedString s => s!"SingleQuotedString:{encodeCps s}"
  | .doubleQuotedString s => s!"DoubleQuotedString:{encodeCps s}"
  | .tripleSingleQuotedString s => s!"TripleSingleQuotedString:{encodeCps s}"
  | .tripleDoubleQuotedString s => s!"TripleDoubleQuotedString:{encodeCps s}"
  | .dollarQuotedString v t =>
    let tg := match t with | some x => "T" ++ encodeCps x | none => "N"
    s!"DollarQuotedString:{encodeCps v}:{tg}"
  | .singleQuotedByteStringLiteral s => s!"SingleQuotedByteStringLiteral:{encodeCps s}"
  | .doubleQuotedByteStringLiteral s => s!"DoubleQuotedByteStringLiteral:{encodeCps s}"
  | .tripleSingleQuotedByteStringLiteral s => s!"TripleSingleQuotedByteStringLiteral:{encodeCps s}"
  | .tripleDoubleQuotedByteStringLiteral s => s!"TripleDoubleQuotedByteStringLiteral:{encodeCps s}"
  | .singleQuotedRawStringLiteral s => s!"SingleQuotedRawStringLiteral:{encodeCps s}"
  | .doubleQuotedRawStringLiteral s => s!"DoubleQuotedRawStringLiteral:{encodeCps s}"
  | .tripleSingleQuotedRawStringLiteral s => s!"TripleSingleQuotedRawStringLiteral:{encodeCps s}"
  | .tripleDoubleQuotedRawStringLiteral s => s!"TripleDoubleQuotedRawStringLiteral:{encodeCps s}"
  | .nationalStringLiteral s => s!"NationalStringLiteral:{encodeCps s}"
  | .escapedStringLiteral s => s!"EscapedStringLiteral:{encodeCps s}"
  | .unicodeStringLiteral s => s!"UnicodeStringLiteral:{encodeCps s}"
  | .hexStringLiteral s => s!"HexStringLiteral:{encodeCps s}"
  | .comma => "Comma"
  | .whitespace w => wsCanon w
  | .doubleEq => "DoubleEq" | .eq => "Eq" | .neq => "Neq" | .lt => "Lt" | .gt => "Gt"
  | .ltEq => "LtEq" | .gtEq => "GtEq" | .spaceship => "Spaceship"
  | .plus => "Plus" | .minus => "Minus" | .mul => "Mul" | .div => "Div"
  | .duckIntDiv => "DuckIntDiv" | .mod => "Mod" | .stringConcat => "StringConcat"
  | .lParen => "LParen" | .rParen => "RParen" | .period => "Period" | .colon => "Colon"
  | .doubleColon => "DoubleColon" | .assignment => "Assignment" | .semiColon => "SemiColon"
  | .backslash => "Backslash" | .lBracket => "LBracket" | .rBracket => "RBracket"
  | .ampersand => "Ampersand" | .pipe => "Pipe" | .caret => "Caret" | .lBrace => "LBrace"
  | .rBrace => "RBrace" | .rArrow => "RArrow" | .sharp => "Sharp"
  | .tilde => "Tilde" | .tildeAsterisk => "TildeAsterisk"
  | .exclamationMarkTilde => "ExclamationMarkTilde"
  | .exclamationMarkTildeAsterisk => "ExclamationMarkTildeAsterisk"
  | .doubleTilde => "DoubleTilde" | .doubleTildeAsterisk => "DoubleTildeAsterisk"
  | .exclamationMarkDoubleTilde => "ExclamationMarkDoubleTilde"
  | .exclamationMarkDoubleTildeAsterisk => "ExclamationMarkDoubleTildeAsterisk"
  | .shiftLeft => "ShiftLeft" | .shiftRight => "ShiftRight" | .overlap => "Overlap"
  | .exclamationMark => "ExclamationMark" | .doubleExclamationMark => "DoubleExclamationMark"
  | .atSign => "AtSign" | .caretAt => "CaretAt" | .pgSquareRoot => "PGSquareRoot"
  | .pgCubeRoot => "PGCubeRoot"
  | .placeholder s => s!"Placeholder:{encodeCps s}"
  | .arrow => "Arrow" | .longArrow => "LongArrow" | .hashArrow => "HashArrow"
  | .hashLongArrow => "HashLongArrow" | .atArrow => "AtArrow" | .arrowAt => "ArrowAt"
  | .hashMinus => "HashMinus" | .atQuestion => "AtQuestion" | .atAt => "AtAt"
  | .question => "Question" | .questionAnd => "QuestionAnd" | .questionPipe => "QuestionPipe"
  | .customBinaryOperator s => s!"CustomBinaryOperator:{encodeCps s}"

/-- `canon::toks_canon` -/
def toksCanon (ts : List (Token × Loc)) : String :=
  ";".intercalate (ts.map fun (t, l) => s!"{tokCanon t}@{l.line}:{l.col}")

def handleTok (args : List String) : String :=
  match args with
  | [dn, un, text, table] =>
    match SqlVerif.Gen.dialects.find? (·.name == dn) with
    | none => "bad-dialect"
    | some row =>
      let env := mkEnv row (un == "1") (parseCharTable table)
      match tokenize env (decodeCps text) with
      | .ok ts => "OK " ++ toksCanon ts
      | .error (.lex m l) => s!"ERR:lex:{encodeCps m}@{l.line}:{l.col}"
      | .error (.panic m) => s!"PANIC:{cpsToString m}"
      | .error .fuel => "ERR:fuel"
  | _ => "bad-request"

end Driver

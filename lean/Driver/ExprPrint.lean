import Driver.Proto
import Driver.Pratt
import SqlVerif.Model.ExprPrint
/-! Stream `exprprint` (properties C01 / C05 on the expression fragment): ops `exprprint`
(text of `to_string()`) and `exprtoks` (the printed token list, in the canonical rendering of
`rust/harness/src/canon.rs`). -/
namespace Driver.Pr
open SqlVerif.Pratt Driver

def encodeTok : Tok → String
  | .word v q kw =>
    "Word:" ++ encodeCps v ++ ":" ++ (match q with | some c => hexOf c | none => "-") ++ ":" ++
      (match kw with | some k => toString k | none => "none")
  | .number s l => "Number:" ++ encodeCps s ++ ":" ++ (if l then "1" else "0")
  | .sqs s => "SingleQuotedString:" ++ encodeCps s
  | .dqs s => "DoubleQuotedString:" ++ encodeCps s
  | .placeholder s => "Placeholder:" ++ encodeCps s
  | .customOp s => "CustomBinaryOperator:" ++ encodeCps s
  | .sym s => s.name
  | .other n p => if p.isEmpty then n else n ++ ":" ++ p

def encodeToks (ts : List Tok) : String := ";".intercalate (ts.map encodeTok)

def runExpr (args : List String) : Option (Except Err (Expr × List Tok)) :=
  match args with
  | [d, lim, toks] =>
    match cfgOf d, lim.toNat? with
    | some c, some l =>
      let ts := decodeToks toks
      some (parseExpr c (4 * ts.length + 4 * l + 64) l ts)
    | _, _ => none
  | _ => none

/-- `exprprint <dialect> <limit> <tokens>` → `OK <hex text> REST <n>` | `ERR:…` | `UNSUPPORTED` -/
def handleExprPrint (args : List String) : String :=
  match runExpr args with
  | none => "bad-request"
  | some (.error er) => errLine er
  | some (.ok (e, rest)) =>
    match showText e with
    | some t => "OK " ++ encodeCps t ++ " REST " ++ toString rest.length
    | none => "NOTEXT"

/-- `exprtoks <dialect> <limit> <tokens>` → `TOKS <canonical tokens>` | `ERR:…` | `UNSUPPORTED` -/
def handleExprToks (args : List String) : String :=
  match runExpr args with
  | none => "bad-request"
  | some (.error er) => errLine er
  | some (.ok (e, _)) => "TOKS " ++ encodeToks (showToks e)

end Driver.Pr

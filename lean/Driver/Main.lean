import Driver.Proto
import Driver.Kw
import Driver.KwHelpers
import Driver.Stmts
import Driver.Cursor
import Driver.CursorState
import Driver.Lists
import Driver.Pratt
import Driver.ExprPrint
import Driver.Tok
import Driver.Escape
import Driver.Visit
import Driver.Serde
import Driver.DataType
import Driver.Query
import Driver.Dml
import Driver.Ddl
import Driver.Tcl
/-! Model driver: one request per line `op \t arg …`, one answer per line. -/
namespace Driver

def dispatch (line : String) : String :=
  match line.splitOn "\t" with
  | "kw" :: args => handleKw args
  | "kwhelpers" :: args => handleKwHelpers args
  | "stmts" :: args => handleStmts args
  | "cursor" :: args => handleCursor args
  | "cursorstate" :: args => handleCursorState args
  | "lists" :: args => handleLists args
  | "prec" :: args => Pr.handlePrec args
  | "chains" :: args => Pr.handleChains args
  | "setops" :: args => Pr.handleSetops args
  | "exprprint" :: args => Pr.handleExprPrint args
  | "exprtoks" :: args => Pr.handleExprToks args
  | "tok" :: args => handleTok args
  | "print" :: args => handlePrint args
  | "visit" :: args => handleVisit args
  | "serde" :: args => handleSerde args
  | "dtparse" :: args => DTyD.handleParse args
  | "dtprint" :: args => DTyD.handlePrint args
  | "queries" :: args => Qr.handleQueries args
  | "dml" :: args => Dm.handleDml args
  | "ddl" :: args => Dd.handleDdl args
  | "tcl" :: args => Tc.handleTcl args
  | _ => "bad-op"

partial def loop (h : IO.FS.Stream) (out : IO.FS.Stream) : IO Unit := do
  let line ← h.getLine
  if line.isEmpty then return ()
  let l := if line.endsWith "\n" then (line.dropEnd 1).toString else line
  out.putStrLn (dispatch l)
  loop h out

end Driver

def main : IO Unit := do
  let i ← IO.getStdin
  let o ← IO.getStdout
  Driver.loop i o

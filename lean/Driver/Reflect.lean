import Driver.Proto
import SqlVerif.Model.Reflect
/-! Wire decoding of a reflected Rust value (rust/harness/src/reflect.rs `encode`), directed by the
schema type it is expected to have.  Every struct/enum token carries the name id of the Rust type
and the shape the serializer saw; a mismatch with the schema is an error line. -/
namespace Driver.Reflect
open SqlVerif.Schema SqlVerif.Serde

def kindOf : Shape → String
  | .unit => "u"
  | .newtype _ => "w"
  | .tuple _ => "t"
  | .struct _ => "s"

def decStr (s : String) : List Nat :=
  if s == "-" then [] else (s.splitOn ".").filterMap Driver.parseHex

def toInt? (s : String) : Option Int :=
  if s.startsWith "-" then (s.drop 1).toString.toNat?.map (fun n => - Int.ofNat n) else s.toNat?.map Int.ofNat

mutual
partial def dec (sch : Schema) (τ : Ty) (toks : List String) : Except String (Val × List String) :=
  match toks with
  | [] => .error "truncated"
  | tok :: rest =>
    let body := (tok.drop 1).toString
    match τ with
    | .unit => if tok == "U" then .ok (.unit, rest) else .error s!"expected unit got {tok}"
    | .bool => if tok == "B1" then .ok (.bool true, rest) else if tok == "B0" then .ok (.bool false, rest) else .error s!"expected bool got {tok}"
    | .uint => match (if tok.startsWith "u" then body.toNat? else none) with
      | some n => .ok (.uint n, rest)
      | none => .error s!"expected unsigned got {tok}"
    | .sint => match (if tok.startsWith "i" then toInt? body else none) with
      | some n => .ok (.sint n, rest)
      | none => .error s!"expected signed got {tok}"
    | .char => match (if tok.startsWith "c" then Driver.parseHex body else none) with
      | some n => .ok (.char n, rest)
      | none => .error s!"expected char got {tok}"
    | .str => if tok.startsWith "s" then .ok (.str (decStr body), rest) else .error s!"expected string got {tok}"
    | .float => .error s!"float field ({tok})"
    | .other => .error s!"unclassified field type ({tok})"
    | .opt t =>
      if tok == "O0" then .ok (.none, rest)
      else if tok == "O1" then (dec sch t rest).map (fun (v, r) => (.some v, r))
      else .error s!"expected option got {tok}"
    | .box t => (dec sch t toks).map (fun (v, r) => (.box v, r))
    | .vec t =>
      match (if tok.startsWith "V" then body.toNat? else none) with
      | some n => (decMany sch (List.replicate n t) rest).map (fun (vs, r) => (.vec vs, r))
      | none => .error s!"expected seq got {tok}"
    | .tup ts =>
      match (if tok.startsWith "T" then body.toNat? else none) with
      | some n => if n == ts.length then (decMany sch ts rest).map (fun (vs, r) => (.tup vs, r)) else .error s!"tuple arity {n}"
      | none => .error s!"expected tuple got {tok}"
    | .named id =>
      match sch.get? id with
      | none => .error s!"unknown type id {id}"
      | some (.struct nm _ _ sh) =>
        if !tok.startsWith "S" then .error s!"type {id}: expected struct got {tok}" else
        match body.splitOn "." with
        | [n, k, c] =>
          if n.toNat? != some nm then .error s!"type {id}: reflected struct name id {n}, schema says {nm}"
          else if k != kindOf sh then .error s!"type {id}: reflected shape {k}, schema says {kindOf sh}"
          else if c.toNat? != some sh.fields.length then .error s!"type {id}: reflected {c} fields, schema says {sh.fields.length}"
          else (decMany sch (sh.fields.map (·.ty)) rest).map (fun (vs, r) => (.struct vs, r))
        | _ => .error s!"bad struct token {tok}"
      | some (.enum nm _ _ vs) =>
        if !tok.startsWith "E" then .error s!"type {id}: expected enum got {tok}" else
        match body.splitOn "." with
        | [n, vi, k, c] =>
          match vi.toNat? with
          | none => .error s!"bad enum token {tok}"
          | some vi =>
            match vs[vi]? with
            | none => .error s!"type {id}: variant index {vi} out of range"
            | some var =>
              if n.toNat? != some nm then .error s!"type {id}: reflected enum name id {n}, schema says {nm}"
              else if k != kindOf var.shape then .error s!"type {id} variant {vi}: reflected shape {k}, schema says {kindOf var.shape}"
              else if c.toNat? != some var.shape.fields.length then .error s!"type {id} variant {vi}: reflected {c} fields"
              else (decMany sch (var.shape.fields.map (·.ty)) rest).map (fun (fs, r) => (.variant vi fs, r))
        | _ => .error s!"bad enum token {tok}"
partial def decMany (sch : Schema) (ts : List Ty) (toks : List String) : Except String (List Val × List String) :=
  match ts with
  | [] => .ok ([], toks)
  | t :: ts =>
    match dec sch t toks with
    | .error e => .error e
    | .ok (v, r) =>
      match decMany sch ts r with
      | .error e => .error e
      | .ok (vs, r') => .ok (v :: vs, r')
end

/-- decode a whole field: all tokens must be consumed -/
def decodeAll (sch : Schema) (τ : Ty) (s : String) : Except String Val :=
  match dec sch τ (s.splitOn " ") with
  | .error e => .error e
  | .ok (v, []) => .ok v
  | .ok (_, r) => .error s!"{r.length} tokens left over"

def errLine (e : String) : String := "ERR:reflect:" ++ Driver.encodeCps (e.toList.map Char.toNat)

end Driver.Reflect

-- Root of the library; property theorem modules are built individually by bin/check.
import SqlVerif.Model.Keywords
